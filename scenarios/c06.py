"""C06 - message framing is independent of how TCP delivers the bytes."""

from __future__ import annotations

import struct

from scenarios.common import R, Speaker, config_text, jclone, knobs, make_world, result, speaker_caps, viol

ID = 'C06'
LEVEL = 'exploration'
LEVEL_TEXT = (
    'seeded exploration of (message stream x TCP segmentation x delivery timing x pass cost) through the real '
    'Reactor/Peer/Protocol/Connection on a virtual-time loop; the oracle is reference framing of the same bytes. '
    'Sampling, not proof: evidence counts distinct schedule signatures.'
    " Some sessions answer the peer's OPEN (`local-as auto`)."
    ' With Extended Message negotiated, NOTIFICATIONs and unknown types above 4096 bytes.'
)
LEVEL_NOTE = 'trusts: the simulated TCP byte-stream model (exasim.net), CPython asyncio, the reference framer in refbgp'
DESIGN_REF = 'DESIGN.md section 5, C06'
RULE = (
    'seeded plans: a peer byte stream of 1-30 messages (all types, body sizes 0..max incl. exactly 19/4096/4097/65535, '
    'optionally ending in one bad header followed by canary messages) x a segmentation of the stream (1-byte pieces, cuts '
    'at every header offset, several messages per segment) x per-segment delays 0-2 s straddling the 0.1 s read poll x '
    'pass cost; a run is non-trivial when at least one message was delivered in >= 2 segments or >= 2 messages shared a '
    'segment; distinct = distinct schedule signatures (event-kind sequence of the history) among non-trivial runs'
)
ASSUMPTIONS = [
    'TCP model: reliable ordered byte stream; segmentation and delay only (no loss/reorder inside a connection)',
    'observation by pass-through wrappers on Connection.reader_async and on the wire bytes; the wrappers record only',
    'ROUTE-REFRESH length faults are not generated (RFC 7313 7/1 vs RFC 4271 1/2 is arguable)',
    'NOTIFICATION length faults are not generated here: RFC 4271 6.4 forbids answering them, judged by C10',
]
SHRINK_LISTS = ['msgs', 'segs']

LOCAL, PEER = '10.0.0.1', '10.0.0.2'


def counts(tier: str):
    return (1200, 70.0) if tier == 'quick' else (20000, 900.0)


# ------------------------------------------------------------------ stream construction


def update_body(n: int, salt: int) -> bytes:
    """a well-formed UPDATE body of exactly n bytes (n >= 4)"""
    if n < 64:
        k = n - 4
        w = b''
        i = 0
        while len(w) + 2 <= k:
            w += bytes([8, (salt + i) % 223 + 1])
            i += 1
        if len(w) < k:
            w += b'\x00'
        return struct.pack('!H', len(w)) + w + b'\x00\x00'
    base = R.attribute(R.A_ORIGIN, b'\x00') + R.attribute(R.A_AS_PATH, R.enc_as_path([(2, [65002])], True)) + R.attribute(R.A_NEXT_HOP, bytes([10, 0, 0, 2]))
    nlri = bytes([24, 198, 51, salt % 256])
    fixed = 4 + len(base) + len(nlri)
    room = n - fixed
    # filler: unknown optional transitive attribute 200
    if room >= 4:
        filler = R.attribute(200, bytes([salt % 256]) * (room - 4), flags=0xC0, extlen=True)
    elif room == 3:
        filler = R.attribute(200, b'', flags=0xC0, extlen=False)
    else:
        filler = b''
        nlri = nlri + b'\x00' * room
    attrs = base + filler
    body = b'\x00\x00' + struct.pack('!H', len(attrs)) + attrs + nlri
    assert len(body) == n, (len(body), n)
    return body


def build_message(spec: dict, idx: int) -> bytes:
    k = spec['k']
    if k == 'ka':
        return R.keepalive()
    if k == 'eor':
        return R.eor()
    if k == 'rr':
        return R.route_refresh(1, 1)
    if k == 'upd':
        return R.message(R.UPDATE, update_body(spec['n'], idx))
    if k == 'notif':
        return R.notification(6, 2, bytes([idx % 251]) * spec['n'] if spec.get('n') else b'bye')
    if k == 'bad':
        f = spec['f']
        if f == 'marker':
            m = bytearray(R.MARKER)
            m[spec['bit'] // 8] ^= 1 << (spec['bit'] % 8)
            mt = spec.get('mtype', R.KEEPALIVE)
            body = {R.KEEPALIVE: b'', R.NOTIFICATION: bytes([6, 2]), R.UPDATE: bytes(4), R.ROUTE_REFRESH: bytes([0, 1, 0, 1]), R.OPEN: bytes(10)}.get(mt, b'')
            return R.message(mt, body, marker=bytes(m))
        if f == 'short':
            return R.message(spec.get('type', R.KEEPALIVE), length=spec['len'])
        if f == 'long':
            return R.message(R.UPDATE, update_body(64, idx), length=spec['len'])
        if f == 'type-len':
            body = b'\x00' * max(0, spec['len'] - 19)
            return R.message(spec['type'], body, length=spec['len'])
        if f == 'unknown-type':
            return R.message(spec['type'], b'\x00' * spec.get('n', 0))
    raise ValueError(spec)


def generate(rng, tier: str, index: int) -> dict:
    ext_local = rng.chance(0.6)
    ext_peer = rng.chance(0.6)
    ext = ext_local and ext_peer  # extended messages only when both sides advertise them
    mx = 65535 if ext else 4096
    msgs = []
    nmsg = rng.randint(1, 30 if tier == 'thorough' else 14)
    for _ in range(nmsg):
        r = rng.random()
        if r < 0.25:
            msgs.append({'k': 'ka'})
        elif r < 0.32:
            msgs.append({'k': 'eor'})
        elif r < 0.40:
            msgs.append({'k': 'rr'})
        else:
            pick = rng.random()
            if pick < 0.5:
                n = rng.randint(4, 120)
            elif pick < 0.8:
                n = rng.randint(120, 4096 - 19)
            elif pick < 0.9:
                n = rng.choice([4096 - 19, 4096 - 20, 4095 - 19])
            else:
                n = rng.choice([4097 - 19, 65535 - 19, 65534 - 19, rng.randint(4097, 65535) - 19]) if ext else 4096 - 19
            msgs.append({'k': 'upd', 'n': n})
    if rng.chance(0.55):
        f = rng.choice(['marker', 'short', 'long', 'type-len', 'unknown-type', 'notif'])
        if f == 'notif':
            # RFC 8654: once negotiated the 65535 limit holds for every type but OPEN and KEEPALIVE, a NOTIFICATION's data included
            msgs.append({'k': 'notif', 'n': rng.choice([4097, 4200, 30000, 65535]) - 21} if ext and rng.chance(0.5) else {'k': 'notif'})
        elif f == 'marker':
            # the damaged marker comes first whatever the Type octet says (RFC 4271 6.1), a NOTIFICATION's included
            msgs.append({'k': 'bad', 'f': 'marker', 'bit': rng.randint(0, 127), 'mtype': rng.choice([4, 4, 2, 3, 3, 5])})
        elif f == 'short':
            msgs.append({'k': 'bad', 'f': 'short', 'len': rng.choice([0, 1, 18, rng.randint(0, 18)]), 'type': rng.choice([1, 2, 4, 5])})
        elif f == 'long':
            if ext:
                msgs.append({'k': 'bad', 'f': 'type-len', 'type': 4, 'len': rng.choice([20, 4096, 65535])})
            else:
                msgs.append({'k': 'bad', 'f': 'long', 'len': rng.choice([4097, 4098, 65535, rng.randint(4097, 65535)])})
        elif f == 'type-len':
            t = rng.choice([1, 2, 4])  # a NOTIFICATION with a bad length is C10's business (RFC 4271 6.4: not answered)
            ln = {1: rng.randint(19, 28), 2: rng.randint(19, 22), 3: rng.randint(19, 20), 4: rng.choice([20, 21, 23, 100])}[t]
            msgs.append({'k': 'bad', 'f': 'type-len', 'type': t, 'len': ln})
        else:
            msgs.append({'k': 'bad', 'f': 'unknown-type', 'type': rng.choice([0, 7, 8, 100, 255]), 'n': rng.choice([0, 0, 4, 40] + ([4097 - 19, 65535 - 19] if ext else []))})
        # canaries: must never be interpreted
        for _ in range(rng.randint(1, 3)):
            msgs.append({'k': 'upd', 'n': rng.randint(30, 90)})
    # segmentation: list of [nbytes, delay]
    style = rng.choice(['whole', 'bytes', 'header', 'random', 'random', 'coalesce', 'slow'])
    segs = []
    nseg = rng.randint(4, 60)
    for _ in range(nseg):
        if style == 'whole':
            n = rng.choice([19, 23, 4096, 100000])
        elif style == 'bytes':
            n = rng.choice([1, 1, 1, 2, 3])
        elif style == 'header':
            n = rng.choice([1, 15, 16, 17, 18, 19, 20, 3])
        elif style == 'coalesce':
            n = rng.choice([100, 1000, 5000, 70000])
        else:
            n = rng.choice([1, 2, 5, 16, 18, 19, 20, 40, 100, 1000, 4096, 9000])
        if style == 'slow':
            d = rng.choice([0.0, 0.05, 0.095, 0.105, 0.15, 0.25, 0.6, 1.1, 2.0])
        else:
            d = rng.choice([0.0, 0.0, 0.0005, 0.003, 0.02, 0.05, 0.09, 0.099, 0.101, 0.11, 0.3, 1.0])
        segs.append([n, d])
    return {
        'micro_seed': rng.randint(1, 1 << 48),
        'knobs': knobs(rng),
        'ext': ext,
        'ext_local': ext_local,
        'ext_peer': ext_peer,
        'eager': rng.chance(0.3),
        'start_delay': rng.choice([0.0, 0.01, 0.2, 1.5]),
        'msgs': msgs,
        'segs': segs,
        'tail_delay': rng.choice([0.0, 0.001, 0.2]),
        # `local-as auto`: exabgp answers the peer's OPEN; the size limit has to follow the negotiation all the same
        'local_auto': rng.chance(0.12),
    }


# ------------------------------------------------------------------ execution


def execute(plan: dict) -> dict:
    w = make_world(plan)
    ext = plan['ext']
    ext_local = plan.get('ext_local', ext)
    ext_peer = plan.get('ext_peer', ext)
    neighbor = {
        'peer_ip': PEER, 'local_ip': LOCAL, 'local_as': 'auto' if plan.get('local_auto') else 65001, 'peer_as': 65002, 'router_id': LOCAL, 'hold': 180,
        'families': [(1, 1)], 'caps': {'extended-message': ext_local, 'route-refresh': True},
    }  # fmt: skip
    spk = Speaker(w, 'p1', PEER, 65002, PEER, LOCAL, hold=180, caps=speaker_caps({'asn': 65002, 'extmsg': ext_peer}))
    spk.periodic_keepalive = False
    w.net.split_p = 0.0
    w.boot(config_text([], [neighbor]))

    # pass-through recorder on the framing layer
    from exabgp.reactor.network.connection import Connection

    frames: dict[int, list] = {}
    orig = Connection.reader_async

    async def reader_async(self):
        fd = self.io._fd if self.io is not None else -1
        r = await orig(self)
        length, msg, header, body, err = r
        frames.setdefault(fd, []).append((length, msg, bytes(header), bytes(body), (err.code, err.subcode) if err else None))
        w.rec('frame', fd=fd, type=msg, n=len(body), err=str((err.code, err.subcode)) if err else '')
        return r

    Connection.reader_async = reader_async

    payload = b''.join(build_message(m, i) for i, m in enumerate(plan['msgs']))
    state = {'sent': False, 'sess': None, 'deliveries': []}

    def send_stream(s, prefix: bytes = b'') -> None:
        if state['sent']:
            return
        state['sent'] = True
        state['sess'] = s
        data = prefix + payload
        cuts, delays = [], []
        off = 0
        for n, d in plan['segs']:
            delays.append(d)
            off += n
            if off >= len(data):
                break
            cuts.append(off)
        if len(delays) <= len(cuts):
            delays.append(plan.get('tail_delay', 0.0))
        # remember the delivery layout for the oracle's fact gathering
        bounds = [0] + cuts + [len(data)]
        t = 0.0
        for i in range(len(bounds) - 1):
            t += delays[i] if i < len(delays) else 0.0
            state['deliveries'].append((bounds[i], bounds[i + 1], t))
        state['prefix'] = len(prefix)
        s.conn.send(data, cuts=cuts, delays=delays)

    first = {'done': False}

    def on_session(s) -> None:
        if first['done']:
            return
        first['done'] = True
        if plan['eager']:
            spk.auto_open = False
            spk.auto_keepalive = False
            s.sent_open = True
            s.sent_ka = True
            s.open_tx = R.build_open(spk.asn, spk.hold, spk.router_id, spk.caps)
            send_stream(s, s.open_tx + R.keepalive())

    def on_established(s) -> None:
        if s.index == 0 and not plan['eager']:
            w.after(plan['start_delay'], lambda: send_stream(s))

    def on_closed(s) -> None:
        spk.accept_mode = 'refuse'  # only the first session is judged

    spk.on_session.append(on_session)
    spk.on_established.append(on_established)
    spk.on_closed.append(on_closed)

    total_delay = sum(d for _, d in plan['segs']) + plan['start_delay']
    w.run(until=total_delay + 12.0)

    violations = check(plan, w, spk, frames, payload, state)
    nsplit = _count_splits(plan, state, payload)
    return result(
        w,
        violations,
        faults={'segments': len(state['deliveries']), 'delays_over_100ms': sum(1 for _, d in plan['segs'][: len(state['deliveries'])] if d > 0.1), 'bad_header': int(any(m['k'] == 'bad' for m in plan['msgs']))},
        probes={'message_split_across_segments': nsplit[0], 'segments_spanning_messages': nsplit[1], 'eager_stream': int(plan['eager']), 'extended_message': int(ext)},
        nontrivial=(nsplit[0] + nsplit[1]) > 0,
        sample={'n_msgs': len(plan['msgs']), 'bytes': len(payload), 'segments': len(state['deliveries'])},
    )


def _frame_bounds(stream: bytes) -> list[tuple[int, int]]:
    out = []
    off = 0
    while len(stream) - off >= 19:
        n = struct.unpack('!H', stream[off + 16 : off + 18])[0]
        if n < 19:
            n = 19
        out.append((off, min(len(stream), off + n)))
        off += n
    return out


def _count_splits(plan, state, payload) -> tuple[int, int]:
    if not state['sent']:
        return (0, 0)
    bounds = _frame_bounds(payload)
    pre = state.get('prefix', 0)
    split = 0
    for a, b in bounds:
        segs = [d for d in state['deliveries'] if d[0] < b + pre and d[1] > a + pre]
        if len(segs) > 1:
            split += 1
    span = sum(1 for d in state['deliveries'] if sum(1 for a, b in bounds if a + pre < d[1] and b + pre > d[0]) > 1)
    return (split, span)


def check(plan, w, spk, frames, payload, state) -> list[dict]:
    out: list[dict] = []
    if not spk.sessions:
        return [viol('C06/harness-no-session', 'no session was ever created')]
    s = spk.sessions[0]
    if not state['sent']:
        return [viol('C06/harness-not-sent', f'stream never sent; session state={s.state}')]
    mx = 65535 if plan['ext'] else 4096
    stream = (s.open_tx or b'') + R.keepalive() + payload
    ref, fault, off = R.frame_stream(stream, lambda i: 4096 if i == 0 else mx)
    # a terminal valid NOTIFICATION ends interpretation as well
    notif_at = next((i for i, f in enumerate(ref) if f[0] == R.NOTIFICATION), None)
    if notif_at is not None:
        ref = ref[: notif_at + 1]
        fault = None
    if fault == (1, 3):
        # the type is checked above the framing layer: the offending frame itself may be handed up
        hdr = stream[off : off + 19]
        ln = struct.unpack('!H', hdr[16:18])[0]
        if len(stream) - off >= ln:
            ref = ref + [(hdr[18], hdr, stream[off + 19 : off + ln])]
    got_all = frames.get(s.conn.sock._fd, [])
    good = [g for g in got_all if g[4] is None]
    errs = [g for g in got_all if g[4] is not None]

    # facts about how the offending frame was delivered
    def delivered_in_pieces(upto_frame: int) -> bool:
        b = _frame_bounds(stream)
        pre_open = len(s.open_tx or b'') + 19
        shift = 0 if plan['eager'] else pre_open
        for i, (a, e) in enumerate(b[: upto_frame + 1]):
            if not plan['eager'] and i < 2:
                continue
            segs = [d for d in state['deliveries'] if d[0] < e - shift and d[1] > a - shift]
            if len({round(d[2], 9) for d in segs}) > 1:
                return True
        return False

    for i, g in enumerate(good):
        if i >= len(ref):
            out.append(
                viol(
                    'C06/interpreted-after-end',
                    f'frame #{i} type={g[1]} len={g[0]} handed to the protocol layer after the stream should have stopped being interpreted (reference: {len(ref)} frames, fault={fault})',
                    fault=str(fault), kind=_fault_kind(plan), pieces=delivered_in_pieces(len(ref)),
                )  # fmt: skip
            )
            break
        t, h, b = ref[i]
        if g[2] != h or g[3] != b:
            out.append(
                viol(
                    'C06/frame-mismatch',
                    f'frame #{i}: protocol layer got type={g[1]} len={g[0]} header={g[2].hex()} body[{len(g[3])}]={g[3][:24].hex()}.. ; the stream holds type={t} len={19 + len(b)} body[{len(b)}]={b[:24].hex()}..',
                    index=i, pieces=delivered_in_pieces(i),
                )  # fmt: skip
            )
            break
    else:
        sent = [(t, b) for c, _, t, b in _wire(w, s.conn.cid)]
        notifs = [(b[0], b[1]) for t, b in sent if t == R.NOTIFICATION and len(b) >= 2]
        if len(good) < len(ref):
            bad_err = errs[0][4] if errs else None
            out.append(
                viol(
                    'C06/missing-frames',
                    f'only {len(good)} of {len(ref)} frames reached the protocol layer (reader error={bad_err}, notifications sent={notifs}, session={s.state} closed_by={s.closed_by})',
                    pieces=delivered_in_pieces(len(good)), notification=str(notifs[:1]),
                )  # fmt: skip
            )
        elif fault is not None:
            kind = _fault_kind(plan)
            if not notifs:
                out.append(viol('C06/no-notification', f'bad header ({kind}) expected {fault} but no NOTIFICATION was written; closed_by={s.closed_by}', kind=kind, expected=str(fault)))
            elif notifs[0] != fault:
                out.append(
                    viol('C06/wrong-notification', f'bad header ({kind}): expected NOTIFICATION {fault}, exabgp sent {notifs[0]}', kind=kind, expected=f'{fault[0]}/{fault[1]}', got=f'{notifs[0][0]}/{notifs[0][1]}')
                )
        else:
            if notif_at is None and s.state == 'closed' and s.closed_by == 'exabgp' and w.loop.mono < state_end(w):
                out.append(viol('C06/unexpected-session-end', f'well-formed stream but exabgp ended the session; notifications={notifs}', notification=str(notifs[:1]), pieces=delivered_in_pieces(len(ref))))
            if notif_at is not None and notifs:
                out.append(viol('C06/notification-answered', f'received NOTIFICATION answered with {notifs}', got=str(notifs[0])))
    return out


def state_end(w) -> float:
    for ev in w.history:
        if ev[2] == 'sim-shutdown-request':
            return ev[1]
    return w.loop.mono


def _wire(w, cid):
    from scenarios.common import wire_messages

    return wire_messages(w, cid)


def _fault_kind(plan) -> str:
    for m in plan['msgs']:
        if m['k'] == 'bad':
            return m['f'] + (f':{m.get("type")}' if m['f'] in ('unknown-type',) else '')
    return 'none'


def shrink_candidates(plan: dict):
    from exasim.runner import generic_candidates

    yield from generic_candidates(plan, ['msgs'])
    yield from generic_candidates(plan, ['segs'])
    # simpler knobs
    for key, val in (('eager', False), ('start_delay', 0.0), ('tail_delay', 0.0)):
        if plan.get(key) != val:
            c = jclone(plan)
            c[key] = val
            yield c
    if plan['knobs'].get('tick') != 0.002 or plan['knobs'].get('drift') or plan['knobs'].get('wall_step'):
        c = jclone(plan)
        c['knobs'].update({'tick': 0.002, 'drift': 0.0, 'wall_step': 0.0})
        yield c
    # shrink sizes and delays
    for i, m in enumerate(plan['msgs']):
        if m['k'] == 'upd' and m['n'] > 30:
            c = jclone(plan)
            c['msgs'][i]['n'] = 30
            yield c
    for i, sg in enumerate(plan['segs']):
        for d in (0.0, 0.099, 0.101):
            if sg[1] > d:
                c = jclone(plan)
                c['segs'][i][1] = d
                yield c
                break
