"""C13 - API events stay well-formed whatever a peer sends."""

from __future__ import annotations

import json

from scenarios import c03
from scenarios.common import R, Speaker, config_text, jclone, knobs, make_world, result, speaker_caps, viol

ID = 'C13'
LEVEL = 'exploration'
LEVEL_TEXT = (
    'seeded exploration through the running speaker with two API helper processes per run (JSON and text encoders, API version 4 or 6 '
    'chosen per run, every receive/event option on): 1-2 scripted peers open sessions with peer-chosen strings in the OPEN (host and domain '
    'name, software version, unknown capabilities) and then send decodable messages of every type built from the seed corpus (all 21 '
    'families) and from generators that plant hostile strings - quotes, backslashes, line breaks, control characters, JSON fragments, forged '
    'text lines, each carrying a marker - in shutdown communications, OPERATIONAL advisories, BGP-LS node/link names and opaque values, '
    'SR-policy names and unknown attributes, plus corpus bodies with one attribute value mutated. Oracle over everything written to the two '
    'pipes: a pass-through recorder sees every exception raised while an event is rendered or written; every JSON line parses strictly, has '
    'no duplicate key in any object, carries the documented envelope and the marker only inside string values (never in a key); every text '
    'line is free of control characters, starts with "neighbor <configured address>" and the marker shows on no more lines than events carry it.'
    ' Structured UPDATEs from the C02 generator, UPDATEs with several tolerated malformed attributes, tunnel encapsulation, BGP-LS floats; the slow helper may die mid-record and be respawned; a Python object repr in a record is a violation.'
    ' The slow helper also writes commands whose replies may not overtake the queued tail of an event.'
)
LEVEL_NOTE = 'trusts: the envelope description in this file (taken from the documentation), strict json.loads as the definition of well-formed JSON'
DESIGN_REF = 'DESIGN.md section 5, C13'
RULE = (
    'plan = API version x 1-2 session kinds x OPEN strings x scripts of up to 12 messages; non-trivial = at least one peer-caused event was '
    'written to both helpers; distinct = digests of (version, kinds, bytes); per-generator and per-event-type counts in the probes'
)
ASSUMPTIONS = [
    'blank lines written by the version-4 text encoder for events it has no text for (fsm, negotiated) are not counted as records',
    'host names and shutdown communications that are not valid UTF-8 are refused by the decoder (C03/C10 business) and therefore planted as valid UTF-8',
]

LOCAL = '10.0.0.1'
MARK = 'ZQX'
HOSTILE = [
    'plain' + MARK,
    'quote"' + MARK + '"end',
    'back\\slash\\' + MARK + '\\',
    'line1' + MARK + '\nneighbor 10.0.0.2 receive update announced route 6.6.6.0/24 next-hop 6.6.6.6 ' + MARK,
    'cr\r' + MARK + '\rx',
    'ctl\x01\x02\x1f\x7f' + MARK,
    'tab\t' + MARK,
    '", "forged' + MARK + '": "1',
    '" }, "type": "update", "x' + MARK + '": { "',
    '\\", \\"escaped' + MARK + '\\": \\"',
    'uni  é' + MARK,
    '</script>' + MARK + '{}[]',
    '\\u0022, \\u0022k' + MARK + '\\u0022: 1',
    MARK + '\\',
    'nul\x00' + MARK,
    'nel\x85' + MARK + '\x85neighbor 10.0.0.2 receive update announced route 6.6.6.0/24 next-hop 6.6.6.6 ' + MARK,
    'ls\u2028' + MARK + '\u2029ps',
    'csi\x9b' + MARK + '\x9b31m',
    'ff\x0c' + MARK + '\x0bvt\x1c\x1d\x1e',
]
GENS = ['corpus', 'corpus', 'corpus-attr', 'corpus-splice', 'valid-unusual', 'bgpls-names', 'bgpls-names', 'srpolicy-names', 'unknown-attr', 'operational', 'refresh', 'notification', 'ref-update', 'ref-update', 'ref-update', 'rfc7606-mix', 'tunnel-encap', 'bgpls-floats', 'bgpls-nlri']
ENVELOPE = {'exabgp', 'time', 'host', 'pid', 'ppid', 'counter', 'type'}


def counts(tier: str):
    return (1200, 75.0) if tier == 'quick' else (40000, 900.0)


def generate(rng, tier: str, index: int) -> dict:
    kinds = [c03.gen_kind(rng, i) for i in range(rng.choice([1, 1, 2]))]
    for k in kinds:
        if rng.chance(0.7):
            k.update({'families': [list(f) for f in c03.ALL_FAMS], 'asn4': True, 'addpath': []})
        k['hostname'] = rng.randint(0, len(HOSTILE) - 1) if rng.chance(0.6) else None
        k['domain'] = rng.randint(0, len(HOSTILE) - 1) if rng.chance(0.4) else None
        k['software'] = rng.randint(0, len(HOSTILE) - 1) if rng.chance(0.3) else None
        k['unknown_cap'] = rng.chance(0.3)
    scripts = []
    for k in kinds:
        items = [{'gen': rng.choice(GENS), 'seed': rng.randint(1, 1 << 40), 'size': rng.choice([16, 64, 200, 1000]), 'text': rng.randint(0, len(HOSTILE) - 1)} for _ in range(rng.randint(1, 12))]
        # a NOTIFICATION ends the session: keep at most one, last
        items = [it for it in items if it['gen'] != 'notification'] + [it for it in items if it['gen'] == 'notification'][:1]
        scripts.append(items)
    version = rng.choice([4, 4, 6])
    plan = {'micro_seed': rng.randint(1, 1 << 48), 'knobs': knobs(rng, env={'api.version': version}), 'version': version, 'kinds': kinds, 'scripts': scripts, 'gap': rng.choice([0.02, 0.1]), 'split_p': rng.choice([0.0, 0.3]),
            'consolidate': rng.chance(0.2), 'packets': rng.chance(0.3),
            'pipe': rng.choice([None, None, {'capacity': rng.choice([100, 1000, 4096, 8192]), 'refill_every': rng.choice([0.01, 0.05, 0.3]), 'helper': rng.choice(['hj', 'ht', 'both']),
                                             'crash_at': rng.choice([None, None, 0.3, 0.6, 1.2])}])}  # fmt: skip
    if plan['pipe'] and plan['pipe']['crash_at'] is None:
        f = rng.fork('chatter')
        plan['pipe']['chatter'] = f.choice([None, 0.005, 0.02, 0.1])
    return plan


def hostile(item: dict, limit: int = 250) -> bytes:
    return HOSTILE[item['text']].encode('utf-8')[:limit]


def base_attrs(kind: dict) -> bytes:
    return c03.base_attrs(kind)


def build(item: dict, kind: dict) -> tuple[int, bytes, int]:
    """-> (type, body, number of marker-carrying strings planted)"""
    from exasim.choice import Rng

    rng = Rng(item['seed'])
    g = item['gen']
    text = hostile(item)
    if g in ('corpus', 'corpus-attr', 'corpus-splice', 'valid-unusual'):
        t, body, _ = c03.build({'gen': g, 'seed': item['seed'], 'size': item['size']}, kind)
        return t, body, 0
    if g == 'ref-update':
        # a well-formed UPDATE from the structured generator of C02: any mix of withdrawn / NLRI / MP_REACH / MP_UNREACH (several
        # families in one message, shared next hops), every attribute subset incl. the RFC 6793 OLD-speaker leftovers, any order
        from scenarios import c02

        fams = [list(f) for f in kind['families'] if tuple(f) in c02.FAMS]
        if fams:
            k2 = dict(kind, families=fams, addpath=[list(f) for f in kind.get('addpath', []) if list(f) in fams], nexthop_ext=[])
            for _ in range(4):
                msg = c02.enc_update(c02.gen_update(rng, k2), k2)
                if msg is not None:
                    return 2, msg[19:], 0
        g = 'unknown-attr'
    if g == 'rfc7606-mix':
        # an UPDATE that still decodes although several of its attributes are malformed (RFC 7606 treat-as-withdraw and
        # attribute-discard classes together): the event reporting it has to be one well-formed record all the same
        taw = [R.attribute(R.A_MED, b'\x00\x00\x01'), R.attribute(R.A_COMMUNITY, b'\xfd\xe8\x00'), R.attribute(R.A_LARGE_COMMUNITY, b'\x00' * 11), R.attribute(R.A_EXT_COMMUNITY, b'\x00\x02\xfd')]
        disc = [R.attribute(R.A_AGGREGATOR, b'\xfd\xf2\x0a\x00\x00'), R.attribute(R.A_ATOMIC, b'\x01'), R.attribute(R.A_AGGREGATOR, b'')]
        origin = R.attribute(R.A_ORIGIN, b'\x00\x00') if rng.chance(0.5) else R.attribute(R.A_ORIGIN, b'\x00')
        path = R.attribute(R.A_AS_PATH, R.enc_as_path([(2, [kind['peer_as']])] if kind['peer_as'] != 65001 else [], kind['asn4']))
        lp = R.attribute(R.A_LOCAL_PREF, (100).to_bytes(4, 'big')) if kind['peer_as'] == 65001 else b''
        parts = [origin, path, R.attribute(R.A_NEXT_HOP, bytes([10, 0, 0, 9])), lp] + rng.sample(taw, rng.randint(0, 2)) + rng.sample(disc, rng.randint(0, 2))
        if rng.chance(0.3):
            rng.shuffle(parts)
        return 2, R.build_update(attrs=b''.join(parts), nlri=c03.v4nlri(kind, '192.0.2.0/24'), withdrawn=c03.v4nlri(kind, '198.51.100.0/24') if rng.chance(0.3) else b'')[19:], 0
    if g == 'tunnel-encap':
        # Tunnel Encapsulation attribute (23): one or several tunnel TLVs, possibly of the same type, with sub-TLVs
        tlvs = b''
        for _ in range(rng.randint(1, 3)):
            ttype = rng.choice([99, 99, 8, 13, 15, 1])
            sub = b''
            for _ in range(rng.randint(0, 2)):
                code = rng.choice([1, 4, 6, 200])
                v = bytes(rng.randint(0, 255) for _ in range(rng.choice([0, 2, 4, 6])))
                sub += bytes([code]) + (len(v).to_bytes(2, 'big') if code >= 128 else bytes([len(v)])) + v
            tlvs += ttype.to_bytes(2, 'big') + len(sub).to_bytes(2, 'big') + sub
        attrs = base_attrs(kind) + R.attribute(R.A_TUNNEL, tlvs, flags=0xC0)
        return 2, R.build_update(attrs=attrs, nlri=c03.v4nlri(kind, '192.0.2.0/24'))[19:], 0
    if g == 'bgpls-nlri':
        # BGP-LS NLRI of every type (node, link, IPv4 prefix, IPv6 prefix) whose descriptor TLVs are any subset of the ones that
        # type can carry: what decodes has to be rendered, what lacks a mandatory descriptor has to be refused - not half of each
        def tlv(code: int, v: bytes) -> bytes:
            return code.to_bytes(2, 'big') + len(v).to_bytes(2, 'big') + v

        node_sub = tlv(512, (65002).to_bytes(4, 'big')) + tlv(515, bytes([0, 0, 0, 0, 0, 1]))
        t = rng.choice([1, 2, 3, 4, 4])
        parts = []
        if rng.chance(0.85):
            parts.append(tlv(256, node_sub))
        if t == 2:
            if rng.chance(0.8):
                parts.append(tlv(257, tlv(512, (65003).to_bytes(4, 'big')) + tlv(515, bytes([0, 0, 0, 0, 0, 2]))))
            if rng.chance(0.5):
                parts.append(tlv(259, bytes([10, 0, 0, 1])))
            if rng.chance(0.5):
                parts.append(tlv(260, bytes([10, 0, 0, 2])))
        if t in (3, 4):
            if rng.chance(0.3):
                parts.append(tlv(263, (2).to_bytes(2, 'big')))
            if rng.chance(0.3):
                parts.append(tlv(264, bytes([rng.choice([1, 2, 5])])))
            if rng.chance(0.6):
                parts.append(tlv(265, bytes([24, 10, 1, 2]) if t == 3 else bytes([48, 0x20, 0x01, 0x0D, 0xB8, 0, 1])))
        if rng.chance(0.2):
            rng.shuffle(parts)
        body_ = bytes([rng.choice([1, 2, 3, 4, 5, 6])]) + bytes(8) + b''.join(parts)
        nlri = t.to_bytes(2, 'big') + len(body_).to_bytes(2, 'big') + body_
        mp = (16388).to_bytes(2, 'big') + bytes([71, 4, 10, 0, 0, 9, 0]) + nlri
        attrs = R.attribute(R.A_ORIGIN, b'\x00') + R.attribute(R.A_AS_PATH, R.enc_as_path([(2, [kind['peer_as']])] if kind['peer_as'] != 65001 else [], kind['asn4'])) + (R.attribute(R.A_LOCAL_PREF, (100).to_bytes(4, 'big')) if kind['peer_as'] == 65001 else b'') + (R.attribute(R.A_MP_REACH, mp) if rng.chance(0.8) else R.attribute(R.A_MP_UNREACH, (16388).to_bytes(2, 'big') + bytes([71]) + nlri))
        return 2, R.build_update(attrs=attrs)[19:], 0
    if g == 'bgpls-floats':
        # BGP-LS link attributes holding IEEE floats (bandwidths): NaN and the infinities are values a peer can send
        vals = [bytes.fromhex(x) for x in ('7fc00000', '7f800000', 'ff800000', '00000000', '4e6e6b28', 'ffffffff')]
        tl = b''
        for code in rng.sample([1089, 1090, 1091], rng.randint(1, 3)):
            v = rng.choice(vals) if code != 1091 else b''.join(rng.choice(vals) for _ in range(8))
            tl += code.to_bytes(2, 'big') + len(v).to_bytes(2, 'big') + v
        node = bytes([2]) + bytes(8) + (256).to_bytes(2, 'big') + (8 + 10).to_bytes(2, 'big') + (512).to_bytes(2, 'big') + (4).to_bytes(2, 'big') + (65002).to_bytes(4, 'big') + (515).to_bytes(2, 'big') + (6).to_bytes(2, 'big') + bytes([0, 0, 0, 0, 0, 1])
        nlri = (1).to_bytes(2, 'big') + len(node).to_bytes(2, 'big') + node
        mp = (16388).to_bytes(2, 'big') + bytes([71, 4, 10, 0, 0, 9, 0]) + nlri
        attrs = R.attribute(R.A_ORIGIN, b'\x00') + R.attribute(R.A_AS_PATH, R.enc_as_path([(2, [kind['peer_as']])] if kind['peer_as'] != 65001 else [], kind['asn4'])) + (R.attribute(R.A_LOCAL_PREF, (100).to_bytes(4, 'big')) if kind['peer_as'] == 65001 else b'') + R.attribute(R.A_MP_REACH, mp) + R.attribute(R.A_BGPLS, tl, flags=0x80)
        return 2, R.build_update(attrs=attrs)[19:], 0
    if g == 'bgpls-names':
        tl = []
        for _ in range(rng.randint(1, 3)):
            code = rng.choice([1026, 1098, 1025, 1097, 1157, 1027, 1171])
            v = text if code in (1026, 1098) or rng.chance(0.5) else bytes(rng.randint(0, 255) for _ in range(rng.choice([1, 4, 9])))
            tl.append(code.to_bytes(2, 'big') + len(v).to_bytes(2, 'big') + v)
        ls = b''.join(tl)
        # a node NLRI (protocol IS-IS L2, identifier 0, local node descriptor AS + router id)
        node = bytes([2]) + bytes(8) + (256).to_bytes(2, 'big') + (8 + 10).to_bytes(2, 'big') + (512).to_bytes(2, 'big') + (4).to_bytes(2, 'big') + (65002).to_bytes(4, 'big') + (515).to_bytes(2, 'big') + (6).to_bytes(2, 'big') + bytes([0, 0, 0, 0, 0, 1])
        nlri = (1).to_bytes(2, 'big') + len(node).to_bytes(2, 'big') + node
        mp = (16388).to_bytes(2, 'big') + bytes([71, 4, 10, 0, 0, 9, 0]) + nlri
        attrs = R.attribute(R.A_ORIGIN, b'\x00') + R.attribute(R.A_AS_PATH, R.enc_as_path([(2, [kind['peer_as']])] if kind['peer_as'] != 65001 else [], kind['asn4'])) + (R.attribute(R.A_LOCAL_PREF, (100).to_bytes(4, 'big')) if kind['peer_as'] == 65001 else b'') + R.attribute(R.A_MP_REACH, mp) + R.attribute(29, ls, flags=0x80)
        return 2, R.build_update(attrs=attrs)[19:], 1
    if g == 'srpolicy-names':
        # tunnel encapsulation attribute, tunnel type 15 (SR policy), policy name (129) / candidate path name (sub-TLV 129/130)
        sub = b''
        for code in rng.sample([129, 130, 12, 13], rng.randint(1, 2)):
            v = (b'\x00' + text) if code in (129, 130) else bytes(rng.randint(0, 255) for _ in range(6))
            sub += bytes([code]) + (len(v).to_bytes(2, 'big') if code >= 128 else bytes([len(v)])) + v
        tun = (15).to_bytes(2, 'big') + len(sub).to_bytes(2, 'big') + sub
        nl = bytes([96]) + (1).to_bytes(4, 'big') + (100).to_bytes(4, 'big') + bytes([10, 0, 0, 9])
        mp = bytes([0, 1, 73, 4, 10, 0, 0, 9, 0]) + nl
        attrs = base_attrs(kind)[: -0 or None]
        attrs = R.attribute(R.A_ORIGIN, b'\x00') + R.attribute(R.A_AS_PATH, R.enc_as_path([(2, [kind['peer_as']])] if kind['peer_as'] != 65001 else [], kind['asn4'])) + (R.attribute(R.A_LOCAL_PREF, (100).to_bytes(4, 'big')) if kind['peer_as'] == 65001 else b'') + R.attribute(R.A_MP_REACH, mp) + R.attribute(23, tun, flags=0xC0)
        return 2, R.build_update(attrs=attrs)[19:], 1
    if g == 'unknown-attr':
        attrs = base_attrs(kind) + R.attribute(rng.choice([99, 200, 250]), text + bytes(rng.randint(0, 255) for _ in range(rng.choice([0, 3, 40]))), flags=0xC0)
        return 2, R.build_update(attrs=attrs, nlri=c03.v4nlri(kind, '192.0.2.0/24'))[19:], 0
    if g == 'operational':
        what = rng.choice([1, 2, 1, 2, 3, 4, 5, 6, 7, 8, 200])
        if what in (1, 2):
            payload = bytes([0, 1, 1]) + text
            return 6, what.to_bytes(2, 'big') + len(payload).to_bytes(2, 'big') + payload, 1
        payload = bytes([0, 1, 1]) + bytes([10, 0, 0, 2]) + (7).to_bytes(4, 'big') + bytes(rng.randint(0, 255) for _ in range(rng.choice([0, 4, 8])))
        return 6, what.to_bytes(2, 'big') + len(payload).to_bytes(2, 'big') + payload, 0
    if g == 'refresh':
        fam = rng.choice(kind['families'])
        return 5, fam[0].to_bytes(2, 'big') + bytes([rng.choice([0, 0, 1, 2]), fam[1]]), 0
    # notification
    code, sub = rng.choice([(6, 2), (6, 4), (6, 2), (6, 3), (3, 1), (2, 7), (99, 99)])
    if (code, sub) in ((6, 2), (6, 4)):
        t = text[: rng.choice([128, 255])]
        return 3, bytes([code, sub, len(t)]) + t, 1
    return 3, bytes([code, sub]) + text, 0


# --------------------------------------------------------------------------- execution


def execute(plan: dict) -> dict:
    w = make_world(plan)
    kinds = plan['kinds']
    confs, speakers = [], []
    receive = ['parsed', 'open', 'update', 'notification', 'keepalive', 'refresh', 'operational']
    if plan.get('consolidate'):
        receive.append('consolidate')
    if plan.get('packets'):
        receive.append('packets')
    for k in kinds:
        fams = [tuple(f) for f in k['families']]
        ap = [tuple(f) for f in k['addpath']]
        confs.append(
            {
                'peer_ip': k['peer_ip'], 'local_ip': LOCAL, 'local_as': 65001, 'peer_as': k['peer_as'], 'router_id': LOCAL, 'hold': 180, 'families': fams, 'adj-rib-in': True,
                'caps': {'asn4': k['asn4'], 'add-path': 'receive' if ap else 'disable', 'extended-message': k['extmsg'], 'operational': True, 'aigp': True},
                'addpath_families': ap or None, 'api': {'processes': ['hj', 'ht'], 'options': ['neighbor-changes', 'negotiated', 'fsm', 'signal'], 'receive': receive},
            }
        )  # fmt: skip
        spec = {'asn': k['peer_as'], 'families': fams, 'asn4': k['asn4'], 'extmsg': k['extmsg']}
        if ap:
            spec['addpath'] = [(a, s, 2) for a, s in ap]
        caps = speaker_caps(spec)
        planted = 0
        if k.get('hostname') is not None or k.get('domain') is not None:
            hn = HOSTILE[k['hostname']].encode()[:255] if k.get('hostname') is not None else b'peer'
            dn = HOSTILE[k['domain']].encode()[:255] if k.get('domain') is not None else b''
            caps.append(R.cap_hostname(hn, dn))
            planted += 1
        if k.get('software') is not None:
            sv = HOSTILE[k['software']].encode()[:63]
            caps.append((75, bytes([len(sv)]) + sv))
            planted += 1
        if k.get('unknown_cap'):
            caps.append((199, MARK.encode() + b'"\n\x00\xff'))
        k['_planted_open'] = planted
        speakers.append(Speaker(w, f'p{k["idx"]}', k['peer_ip'], k['peer_as'], k['peer_ip'], LOCAL, hold=180, caps=caps))
    w.boot(config_text([{'name': 'hj', 'encoder': 'json'}, {'name': 'ht', 'encoder': 'text'}], confs))
    hj, ht = w.procs.helper('hj'), w.procs.helper('ht')
    w.net.split_p = plan.get('split_p', 0.0)
    probes: dict = {'messages': 0, 'render_exceptions': 0}
    pressured = []
    if plan.get('pipe'):
        # a slow helper: its stdin pipe takes `capacity` bytes and gains as much again every `refill_every`
        pressured = [hh for name, hh in (('hj', hj), ('ht', ht)) if plan['pipe']['helper'] in (name, 'both')]
        for hh in pressured:
            hh.capacity = plan['pipe']['capacity']

        def refill() -> None:
            for hh in pressured:
                if hh.capacity is not None:
                    hh.capacity += plan['pipe']['capacity']
            w.after(plan['pipe']['refill_every'], refill)

        w.after(plan['pipe']['refill_every'], refill)
        if plan['pipe'].get('chatter') and pressured:
            # the slow helper also talks: commands answered with `error` while the tail of an event is still waiting for room - a
            # reply may not overtake it
            def chatter() -> None:
                if finished['t'] is not None or w.loop.mono > 30.0:
                    return
                for hh in pressured:
                    if not hh.exited:
                        probes['helper_commands'] = probes.get('helper_commands', 0) + 1
                        n = probes['helper_commands']
                        # answered from the dispatcher at once / from a scheduled callback (`error`: no such route, `done` or `error`: an EOR)
                        hh.emit([b'frobnicate the pipe\n', b'peer * announce route 300.0.0.0/24 next-hop 10.0.0.9\n', b'peer * announce eor ipv4 unicast\n'][n % 3])
                w.after(plan['pipe']['chatter'], chatter)

            w.at(0.3, chatter)
        if plan['pipe'].get('crash_at') is not None and pressured:
            # the slow helper dies while exabgp holds the unwritten tail of an event for it, and is respawned under the same
            # name: what the new instance reads must start with a whole record
            victim = pressured[0]
            crash = {'done': False}

            def maybe_crash() -> None:
                if crash['done'] or w.loop.mono > 30.0:
                    return
                q = w.reactor.processes._write_queue.get(victim.name)
                if q and victim.partial_writes > 0 and victim.inbuf:
                    crash['done'] = True
                    probes['helper_crashed_mid_record'] = 1
                    victim.exit(1)
                    return
                w.after(0.01, maybe_crash)

            w.at(plan['pipe']['crash_at'], maybe_crash)
    violations: list[dict] = []
    render_log: list = []

    from exabgp.reactor.api.processes import Processes

    wrapped = {}

    def wrap(name: str):
        orig = getattr(Processes, name)
        wrapped[name] = orig

        def recorder(self, *a, **kw):
            try:
                return orig(self, *a, **kw)
            except BaseException as exc:  # noqa: BLE001
                import traceback

                tb = traceback.extract_tb(exc.__traceback__)
                site = next((f'{f.filename.split("/exabgp/")[-1]}:{f.name}' for f in reversed(tb) if '/exabgp/' in f.filename), '?')
                render_log.append((name, type(exc).__name__, str(exc)[:160], site))
                raise

        setattr(Processes, name, recorder)

    for name in ('message', 'notification', 'packets', 'negotiated', 'up', 'connected', 'down', 'fsm', 'signal'):
        wrap(name)

    pos = [0 for _ in kinds]
    planted_lines = {'n': 0, 'updates_nlri': 0}
    finished = {'t': None}

    def step(i: int, sess) -> None:
        sc = plan['scripts'][i]
        if sess.state == 'closed' or pos[i] >= len(sc):
            return
        item = sc[pos[i]]
        pos[i] += 1
        mtype, body, planted = build(item, kinds[i])
        mx = (65535 if kinds[i]['extmsg'] else 4096) - 19
        body = body[:mx]
        probes['messages'] += 1
        probes['gen:' + item['gen']] = probes.get('gen:' + item['gen'], 0) + 1
        planted_lines['n'] += planted
        sess.send(R.message(mtype, body))
        w.after(plan['gap'], lambda: step(i, sess))

    for i, sp in enumerate(speakers):
        sp.on_established.append(lambda sess, i=i: w.after(0.1, lambda: step(i, sess)))

    def driver() -> None:
        now = w.loop.mono
        done = all(pos[i] >= len(plan['scripts'][i]) for i in range(len(kinds)))
        if finished['t'] is None and (done or now > 30.0):
            finished['t'] = now + plan['gap'] * 2 + 0.5
        if finished['t'] is not None and now >= finished['t']:
            if pressured and any(hh.capacity is not None for hh in pressured):
                # the helper catches up: everything queued must now come out, whole
                for hh in pressured:
                    probes['partial_writes'] = probes.get('partial_writes', 0) + hh.partial_writes
                    probes['eagain'] = probes.get('eagain', 0) + hh.eagains
                    hh.capacity = None
                finished['t'] = now + 3.0
                w.after(0.5, driver)
                return
            judge(w, plan, kinds, speakers, hj, ht, render_log, planted_lines, violations, probes)
            w.signal('SHUTDOWN')
            return
        w.after(0.5, driver)

    w.at(1.0, driver)
    try:
        w.run(until=60.0)
    finally:
        for name, orig in wrapped.items():
            setattr(Processes, name, orig)
    nontrivial = probes.get('json_lines', 0) > 0 and probes.get('text_lines', 0) > 0 and probes['messages'] > 0
    return result(w, violations[:1], probes=probes, faults={'hostile_strings': planted_lines['n'], 'segmented_delivery': 1 if plan.get('split_p') else 0}, nontrivial=nontrivial,
                  sample={'version': plan['version'], 'kinds': [(k['asn4'], len(k['families']), k.get('hostname')) for k in kinds], 'scripts': [[i['gen'] for i in s][:6] for s in plan['scripts']]})  # fmt: skip


class Dup(Exception):
    pass


def _pairs(pairs):
    d = {}
    for k, v in pairs:
        if k in d:
            raise Dup(k)
        d[k] = v
    return d


def _no_const(x):
    raise ValueError(f'non-JSON constant {x}')


def marker_in_key(obj) -> str | None:
    if isinstance(obj, dict):
        for k, v in obj.items():
            if MARK in k:
                return k
            r = marker_in_key(v)
            if r:
                return r
    elif isinstance(obj, list):
        for v in obj:
            r = marker_in_key(v)
            if r:
                return r
    return None


def bad_char(ln: str) -> str | None:
    """a control character (Unicode category Cc) or anything str.splitlines() takes for a line boundary"""
    import unicodedata

    for c in ln:
        if unicodedata.category(c) == 'Cc' or c in ('\u2028', '\u2029'):
            return f'U+{ord(c):04X}'
    return None


def check_json_line(ln: str, peers: set[str]) -> tuple[str, str] | None:
    bc = bad_char(ln)
    if bc:
        return 'control-character', f'a raw control character or line break ({bc}) in the line'
    try:
        ev = json.loads(ln, object_pairs_hook=_pairs, parse_constant=_no_const)
    except Dup as exc:
        return 'duplicate-key', f'duplicate key {str(exc)[:60]}'
    except ValueError as exc:
        return 'does-not-parse', str(exc)[:100]
    if not isinstance(ev, dict):
        return 'does-not-parse', 'not an object'
    missing = ENVELOPE - set(ev)
    if missing:
        return 'envelope', f'missing {sorted(missing)}'
    t = ev['type']
    if t not in ('update', 'open', 'notification', 'keepalive', 'refresh', 'route-refresh', 'operational', 'state', 'negotiated', 'fsm', 'signal', 'shutdown'):
        return 'envelope', f'undocumented type {str(t)[:40]}'
    if t != 'shutdown':
        nb = ev.get('neighbor')
        if not isinstance(nb, dict) or not isinstance(nb.get('address'), dict) or nb['address'].get('peer') not in peers or 'asn' not in nb:
            return 'envelope', 'neighbor section missing or for an address that is not configured'
    k = marker_in_key(ev)
    if k:
        return 'forged-field', f'peer data became the key {k[:60]!r}'
    return None


def judge(w, plan, kinds, speakers, hj, ht, render_log, planted, violations, probes) -> None:
    peers = {k['peer_ip'] for k in kinds}
    version = plan['version']
    if render_log:
        name, exc, text, site = render_log[0]
        probes['render_exceptions'] = len(render_log)
        violations.append(viol('C13/render-exception', f'API v{version}: rendering a {name} event raised {exc}: {text} at {site}', error=exc, site=site))
        return
    # JSON helper (and the text helper under version 6, which is JSON only)
    json_helpers = [('json', hj)] + ([('text->json', ht)] if version == 6 else [])
    for name, h in json_helpers:
        for _, ln in h.lines:
            if not ln:
                continue
            if ln in ('done', 'error') or ln.startswith('error'):
                continue
            probes['json_lines'] = probes.get('json_lines', 0) + 1
            if ' object at 0x' in ln:
                violations.append(viol('C13/unrendered-object', f'API v{version} {name} helper: a Python object was written instead of its rendering: {ln[:260]!r}', version=version))
                return
            bad = check_json_line(ln, peers)
            if bad:
                violations.append(viol('C13/json-' + bad[0], f'API v{version} {name} helper: {bad[1]} in: {ln[:260]}', version=version, what=bad[1][:50]))
                return
            try:
                t = json.loads(ln).get('type')
                probes['event:' + str(t)] = probes.get('event:' + str(t), 0) + 1
            except ValueError:
                pass
    if version == 4:
        marked = 0
        for _, ln in ht.lines:
            if not ln:
                continue
            probes['text_lines'] = probes.get('text_lines', 0) + 1
            if ' object at 0x' in ln:
                violations.append(viol('C13/unrendered-object', f'API v4 text helper: a Python object was written instead of its rendering: {ln[:260]!r}', version=4))
                return
            bc = bad_char(ln)
            if bc:
                violations.append(viol('C13/text-control-character', f'API v4 text helper: control character or line break {bc} in: {ln[:260]!r}', version=4, char=bc))
                return
            if ln.startswith(' header 0x') and all(c in '0123456789ABCDEFabcdefx hedrboy' for c in ln):
                continue  # the raw packet line the version-4 text encoder puts inside an update block
            if (ln in ('error', 'done') or ln.startswith('error: ')) and (plan.get('pipe') or {}).get('chatter'):
                continue  # the answer to one of the helper's own commands
            if not any(ln.startswith(f'neighbor {p} ') for p in peers) and ln not in ('shutdown',):
                violations.append(viol('C13/text-forged-line', f'API v4 text helper: a line that is not an event of a configured neighbor: {ln[:260]!r}', version=4))
                return
            if ' receive update announced route 6.6.6.0/24' in ln and not ln.startswith('neighbor 10.0.0.2 receive notification') and ln.count('receive ') > 1 and False:
                pass
            if MARK in ln:
                marked += 1
                # the forged line planted in the hostile strings must never start a record
                words = ln.split(' ')
                if len(words) > 4 and words[2] == 'receive' and words[3] == 'update' and 'route 6.6.6.0/24 next-hop 6.6.6.6' in ln and ln.index('route 6.6.6.0/24') < 60:
                    violations.append(viol('C13/text-forged-line', f'API v4 text helper: peer data forged an update record: {ln[:260]!r}', version=4))
                    return
        probes['text_marked_lines'] = marked
    else:
        probes['text_lines'] = probes.get('text_lines', 0) + sum(1 for _, ln in ht.lines if ln)


def shrink_candidates(plan: dict):
    if len(plan['kinds']) > 1:
        for i in range(len(plan['kinds'])):
            p = jclone(plan)
            del p['kinds'][i]
            del p['scripts'][i]
            p['kinds'][0]['idx'] = 0
            p['kinds'][0]['peer_ip'] = '10.0.0.2'
            yield p
    for i, sc in enumerate(plan['scripts']):
        n = len(sc)
        for j in range(n):
            if n > 1:
                p = jclone(plan)
                p['scripts'][i] = [sc[j]]
                yield p
        for j in range(n):
            if n > 1:
                p = jclone(plan)
                del p['scripts'][i][j]
                yield p
        if n == 1 and any(k.get(x) is not None for k in plan['kinds'] for x in ('hostname', 'domain', 'software')):
            pass
    for i, k in enumerate(plan['kinds']):
        for key in ('hostname', 'domain', 'software'):
            if k.get(key) is not None:
                p = jclone(plan)
                p['kinds'][i][key] = None
                yield p
        if k.get('unknown_cap'):
            p = jclone(plan)
            p['kinds'][i]['unknown_cap'] = False
            yield p
    for key in ('consolidate', 'packets'):
        if plan.get(key):
            p = jclone(plan)
            p[key] = False
            yield p
    if plan.get('split_p'):
        p = jclone(plan)
        p['split_p'] = 0.0
        yield p
    kn = plan['knobs']
    if kn.get('tick') != 0.002 or kn.get('drift') or kn.get('wall_step'):
        p = jclone(plan)
        p['knobs'].update({'tick': 0.002, 'drift': 0.0, 'wall_step': 0.0})
        yield p
