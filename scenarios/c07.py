"""C07 - negotiated session parameters are the RFC function of the two OPENs."""

from __future__ import annotations

import json
import struct

from scenarios.common import FAM_TEXT, R, Speaker, config_text, jclone, knobs, make_world, result, viol, wire_messages

ID = 'C07'
LEVEL = 'exploration'
LEVEL_TEXT = (
    'two-party exchange under simulation: seeded neighbor configurations (families, ASN4, ADD-PATH mode per family, extended next hop, '
    'route-refresh, extended message, graceful restart, hold time, local/peer AS incl. 4-byte, host names long enough to need RFC 9072) '
    'x arbitrary peer OPENs (fixed fields, any set / order / duplication of capabilities, unknown codes, RFC 9072 form); oracle: '
    'exabgp\'s OPEN reference-decoded == what the configuration enables; the `negotiated` API event == an independent negotiation '
    'function of the two decoded OPENs; behavioural probes confirm the event (4097-byte message accepted iff extended messages, path '
    'identifiers iff ADD-PATH send, AS_PATH width and AS_TRANS/AS4_PATH follow ASN4, eBGP prepend is the true local AS); OPENs the RFCs '
    'require refusing get their OPEN error subcode.'
    " Wide configurations (12-21 families, long names) make ExaBGP's own OPEN use the RFC 9072 form; `local-as auto` neighbors."
    ' A quarter of the plans run a second neighbor with the other ADD-PATH setting in the same process, its sessions interleaved with the first.'
    ' The helper is shown packets/open in 40 % of the plans (events rendered before the negotiation completes).'
)
LEVEL_NOTE = 'trusts: the reference negotiation function and OPEN codec in this file / refbgp; where only one side sent no MP capability at all the families comparison is skipped (arguable RFC default)'
DESIGN_REF = 'DESIGN.md section 5, C07'
RULE = (
    'plan = neighbor configuration x up to 6 peer OPEN specifications (one session each) [x a second neighbor with up to 4 more]; non-trivial = the session established and at '
    'least one behavioural probe ran, or a refusal class was exercised; distinct = digests of (configuration, OPEN capability multiset)'
)
ASSUMPTIONS = [
    'capabilities exabgp adds on its own initiative (enhanced route refresh, software version, ...) are not judged; the listed ones must match the configuration exactly',
    'hold time judged as min(); hold time 1-2 must be refused with 2/6',
    'ADD-PATH is configured only for the families exabgp implements it for (unicast, labelled, VPN); host/domain names stay within 64 bytes',
]

LOCAL, PEER, PEER2 = '10.0.0.1', '10.0.0.2', '10.0.0.3'
ALL_FAMS = [(1, 1), (2, 1), (1, 2), (1, 4), (1, 128)]
AP_SUPPORTED = [(1, 1), (2, 1), (1, 4), (1, 128)]
WIDE_FAMS = [
    (1, 1), (1, 2), (1, 4), (1, 128), (1, 5), (1, 133), (1, 134), (1, 85), (1, 73), (2, 1), (2, 4), (2, 128), (2, 5), (2, 85), (2, 73), (2, 133), (2, 134),
    (25, 65), (25, 70), (16388, 71), (16388, 72),
]  # fmt: skip
FAM_TEXT.update({(1, 5): 'ipv4 mcast-vpn', (2, 5): 'ipv6 mcast-vpn', (1, 85): 'ipv4 mup', (2, 85): 'ipv6 mup', (1, 73): 'ipv4 sr-policy', (2, 73): 'ipv6 sr-policy',
                 (25, 70): 'l2vpn evpn', (16388, 71): 'bgp-ls bgp-ls', (16388, 72): 'bgp-ls bgp-ls-vpn'})  # fmt: skip


def counts(tier: str):
    return (1000, 75.0) if tier == 'quick' else (15000, 900.0)


def gen_open(rng, conf: dict) -> dict:
    kind = rng.choice(['ok', 'ok', 'ok', 'ok', 'bad-as', 'bad-id', 'bad-hold', 'bad-version', 'same-id'])
    if conf['local_auto'] and kind == 'bad-as':
        kind = 'ok'  # what exabgp answers to a peer whose AS is not the configured peer-as is not modelled for the mirroring case
    pf = rng.sample(ALL_FAMS, rng.randint(0, 4))
    if rng.chance(0.7) and (1, 1) not in pf:
        pf.append((1, 1))
    caps = [['mp', a, s] for a, s in pf]
    if rng.chance(0.8):
        caps.append(['asn4'])
    if rng.chance(0.7):
        caps.append(['refresh'])
    if rng.chance(0.4):
        caps.append(['enh'])
    if rng.chance(0.5):
        caps.append(['extmsg'])
    if rng.chance(0.5):
        caps.append(['addpath', [[a, s, rng.choice([1, 2, 3])] for a, s in rng.sample(ALL_FAMS, rng.randint(1, 3))]])
    if rng.chance(0.3):
        caps.append(['nexthop', [[1, 1, 2], [1, 128, 2]][: rng.randint(1, 2)]])
    if rng.chance(0.3):
        caps.append(['gr', rng.choice([0, 120])])
    if rng.chance(0.3):
        caps.append(['unknown', rng.choice([99, 128, 200]), rng.randint(0, 6)])
    if rng.chance(0.2):
        if caps:
            caps.append(rng.choice(caps))  # duplicate
    rng.shuffle(caps)
    if conf['local_auto'] and ['asn4'] not in caps:
        caps.append(['asn4'])  # the AS exabgp mirrors must be stated unambiguously
    return {'kind': kind, 'hold': rng.choice([0, 3, 9, 90, 180, 65535]), 'caps': caps, 'one_param': rng.chance(0.5), 'ext': rng.choice([None, None, True]), 'pad': rng.choice([0, 0, 300]), 'fit': rng.choice([None, None, 253, 254, 255, 255])}


def generate(rng, tier: str, index: int) -> dict:
    local_as = rng.choice([65001, 65001, 4200000001])
    ibgp = rng.chance(0.3)
    peer_as = local_as if ibgp else rng.choice([65002, 4200000002])
    fams = [(1, 1)] + rng.sample(ALL_FAMS[1:], rng.randint(0, 3))
    wide = rng.chance(0.2)
    if wide:
        # enough families (8 bytes of capability each) and names that exabgp's own optional parameters pass 255 bytes
        # and it has to use the RFC 9072 extended form; sizes drawn around the switch
        fams = [(1, 1)] + rng.sample([f for f in WIDE_FAMS if f != (1, 1)], rng.randint(12, len(WIDE_FAMS) - 1))
    apmode = rng.choice(['disable', 'disable', 'send', 'receive', 'send/receive'])
    conf = {
        'local_as': local_as, 'peer_as': peer_as, 'hold': rng.choice([0, 3, 9, 30, 180]), 'families': fams, 'asn4': rng.chance(0.8),
        'addpath': apmode, 'addpath_families': [],
        'extmsg': rng.chance(0.5), 'refresh': rng.chance(0.8), 'gr': rng.choice([0, 0, 120]),
        'nexthop': rng.chance(0.3), 'hostname': rng.choice([None, None, 'r1', 'h' * 60]), 'domain': rng.choice([None, 'example.net', 'd' * 60]),
    }  # fmt: skip
    if wide:
        conf['hostname'] = 'h' * rng.choice([1, 20, 40, 60, 63, 64])
        conf['domain'] = 'd' * rng.choice([1, 20, 40, 60, 63, 64])
    ap_ok = [f for f in fams if f in AP_SUPPORTED]  # exabgp implements ADD-PATH for these families only
    if apmode != 'disable' and ap_ok:
        conf['addpath_families'] = rng.sample(ap_ok, rng.randint(1, len(ap_ok)))
    else:
        conf['addpath'] = 'disable'
    if (local_as > 65535 or peer_as > 65535) and not conf['asn4']:
        conf['asn4'] = True  # 4-byte AS numbers on either side need the capability to be expressible at all
    opens = []
    # `local-as auto`: exabgp reads the peer's OPEN first and answers with the peer's AS (an iBGP session whatever the peer is)
    conf['local_auto'] = rng.chance(0.1)
    for _ in range(rng.randint(1, 6)):
        opens.append(gen_open(rng, conf))
    plan = {'micro_seed': rng.randint(1, 1 << 48), 'knobs': knobs(rng), 'conf': conf, 'opens': opens}
    # a second neighbor in the same process with the other ADD-PATH setting, its sessions interleaved with the first one's: what one
    # session negotiated is no business of another (a side stream: the plans generated so far keep their draws)
    plan['api_packets'] = rng.fork('api-packets').chance(0.4)
    f = rng.fork('second')
    if f.chance(0.25) and ap_ok and not conf['local_auto']:
        if conf['addpath'] != 'disable':
            second = {'addpath': 'disable', 'addpath_families': []}
        else:
            second = {'addpath': f.choice(['send', 'receive', 'send/receive']), 'addpath_families': f.sample(ap_ok, f.randint(1, len(ap_ok)))}
        c2 = dict(conf, **second)
        second['opens'] = [dict(gen_open(f, c2), kind='ok') for _ in range(f.randint(1, 4))]
        second['start'] = f.choice([0.0, 0.0, 1.0, 3.0, 6.0])
        plan['second'] = second
    return plan


def peer_caps(spec: dict, peer_as: int) -> list[tuple[int, bytes]]:
    out = []
    for c in spec['caps']:
        k = c[0]
        if k == 'mp':
            out.append(R.cap_mp(c[1], c[2]))
        elif k == 'asn4':
            out.append(R.cap_asn4(peer_as))
        elif k == 'refresh':
            out.append(R.cap_refresh())
        elif k == 'enh':
            out.append(R.cap_enh_refresh())
        elif k == 'extmsg':
            out.append(R.cap_extmsg())
        elif k == 'addpath':
            out.append(R.cap_addpath([tuple(x) for x in c[1]]))
        elif k == 'nexthop':
            out.append(R.cap_nexthop([tuple(x) for x in c[1]]))
        elif k == 'gr':
            out.append(R.cap_gr(c[1]))
        elif k == 'unknown':
            out.append((c[1], bytes(range(c[2]))))
    if spec.get('pad'):
        out.append((77, b'p' * 250))
        out.append((78, b'q' * (spec['pad'] - 250)))
    if spec.get('fit') and not spec.get('pad') and not spec.get('ext'):
        # optional parameters of exactly 253 / 254 / 255 bytes in the classic one-octet-length encoding (RFC 9072 only
        # switches on Non-Ext OP Type 255): the last byte of the last capability sits at the very end
        if spec['one_param']:
            used = sum(4 + len(v) for _, v in out)
            room = spec['fit'] - used - 4
        else:
            used = 2 + sum(2 + len(v) for _, v in out)
            room = spec['fit'] - used - 2
        if 0 <= room <= 251 and (spec['one_param'] or used + 2 + room - 2 <= 255):
            out.append((79, bytes((i * 7) & 255 for i in range(room))))
    return out


def build_peer_open(spec: dict, conf: dict) -> bytes:
    asn = conf['peer_as']
    rid = conf.get('peer_rid', PEER)
    hold = spec['hold']
    version = 4
    k = spec['kind']
    if k == 'bad-as':
        asn = asn + 11
    elif k == 'bad-id':
        rid = '0.0.0.0'
    elif k == 'bad-hold':
        hold = 1 + spec['hold'] % 2
    elif k == 'bad-version':
        version = 3
    elif k == 'same-id':
        rid = LOCAL
    return R.build_open(asn, hold, rid, peer_caps(spec, asn), version=version, one_param_per_cap=spec['one_param'], extended=spec['ext'])


def expected_refusal(spec: dict, conf: dict):
    """every OPEN error subcode an RFC-conforming speaker may answer with (several faults: any of them)"""
    k = spec['kind']
    out = set()
    if k == 'bad-version':
        out.add((2, 1))
    if k == 'bad-as':
        out.add((2, 2))
    if k == 'bad-id':
        out.add((2, 3))
    if k == 'same-id' and conf['peer_as'] == conf['local_as']:
        out.add((2, 3))
    if k == 'bad-hold':
        out.add((2, 6))
    if conf['peer_as'] > 65535 and not any(c[0] == 'asn4' for c in spec['caps']):
        out.add((2, 2))  # the expected 4-byte peer AS cannot be confirmed by an OPEN without the ASN4 capability
    return out or None


def reference_negotiation(conf: dict, mine: dict, theirs: dict) -> dict:
    """the RFC function of the two decoded OPENs (mine = exabgp's as decoded, theirs = the peer's)"""
    fams = [f for f in mine['families'] if f in theirs['families']]
    asn4 = mine['asn4'] is not None and theirs['asn4'] is not None
    hold = min(mine['hold'], theirs['hold'])
    send, recv = [], []
    for f in fams:
        m = mine['addpath'].get(f, 0)
        t = theirs['addpath'].get(f, 0)
        if m & 2 and t & 1:
            send.append(f)
        if m & 1 and t & 2:
            recv.append(f)
    if mine['enh_refresh'] and theirs['enh_refresh']:
        refresh = 'enhanced'
    elif mine['refresh'] and theirs['refresh']:
        refresh = 'normal'
    else:
        refresh = 'absent'
    return {
        'families': fams, 'asn4': asn4, 'hold': hold, 'send': send, 'recv': recv, 'refresh': refresh,
        'msg_size': 65535 if (mine['extmsg'] and theirs['extmsg']) else 4096,
        'nexthop': [n for n in mine['nexthop'] if n in theirs['nexthop']],
    }  # fmt: skip


def fam_txt(f) -> str:
    return FAM_TEXT[tuple(f)]


def execute(plan: dict) -> dict:
    w = make_world(plan)
    conf = plan['conf']
    local_as_text = conf['local_as']
    if conf.get('local_auto'):
        conf = dict(conf, local_as=conf['peer_as'])  # what the oracle expects exabgp to be
        local_as_text = 'auto'
    caps = {
        'asn4': conf['asn4'], 'route-refresh': conf['refresh'], 'extended-message': conf['extmsg'], 'graceful-restart': conf['gr'] if conf['gr'] else 'disable',
        'add-path': conf['addpath'], 'nexthop': conf['nexthop'], 'multi-session': False, 'operational': False, 'aigp': False, 'software-version': False,
    }  # fmt: skip
    nb = {
        'peer_ip': PEER, 'local_ip': LOCAL, 'local_as': local_as_text, 'peer_as': conf['peer_as'], 'router_id': LOCAL, 'hold': conf['hold'],
        'families': conf['families'], 'caps': caps, 'addpath_families': conf['addpath_families'] or None, 'adj-rib-out': False,
        'api': {'processes': ['h1'], 'options': ['negotiated', 'neighbor-changes']},
    }  # fmt: skip
    if plan.get('api_packets'):
        # the helper is also shown every message as a packet, the OPENs included: rendered before the negotiation is complete
        nb['api'].update({'receive': ['packets', 'open', 'keepalive'], 'send': ['packets', 'open']})
    if conf['nexthop']:
        nb['nexthop'] = ['ipv4 unicast ipv6', 'ipv4 mpls-vpn ipv6'] if (1, 128) in [tuple(f) for f in conf['families']] else ['ipv4 unicast ipv6']
    if conf['hostname']:
        nb['host-name'] = conf['hostname']
    if conf['domain']:
        nb['domain-name'] = conf['domain']
    nbs = [nb]
    second = plan.get('second')
    conf2 = None
    if second:
        conf2 = dict(conf, addpath=second['addpath'], addpath_families=second['addpath_families'], peer_rid=PEER2)
        nbs.append(dict(nb, peer_ip=PEER2, caps=dict(caps, **{'add-path': conf2['addpath']}), addpath_families=conf2['addpath_families'] or None))
    spk = Speaker(w, 'p1', PEER, conf['peer_as'], PEER, LOCAL, hold=90, caps=[])
    spk.auto_open = False
    spk.auto_keepalive = True
    spk2 = None
    if second:
        spk2 = Speaker(w, 'p2', PEER2, conf['peer_as'], PEER2, LOCAL, hold=90, caps=[])
        spk2.auto_open = False
        spk2.auto_keepalive = True
        if second.get('start'):
            spk2.accept_mode = 'refuse'
            w.at(second['start'], lambda: setattr(spk2, 'accept_mode', 'accept'))
    w.boot(config_text([{'name': 'h1'}], nbs))
    h = w.procs.helper('h1')
    records: list[dict] = []
    probes = {'sessions': 0, 'established': 0, 'refusals': 0, 'probe_4097': 0, 'probe_route': 0, 'ext_params_form': 0, 'second_neighbor_sessions': 0}
    queues = {}

    def attach(spk, queue, cf, peer_ip) -> None:
        queues[peer_ip] = queue

        def on_session(sess) -> None:
            if not queue:
                spk.accept_mode = 'refuse'
                sess.close()
                return
            spec = queue.pop(0)
            rec = {'spec': spec, 'sess': sess, 'negotiated_line': None, 'lines0': len(h.lines), 'conf': cf, 'peer_ip': peer_ip}
            records.append(rec)
            sess.c07 = rec
            probes['sessions'] += 1
            if peer_ip != PEER:
                probes['second_neighbor_sessions'] += 1
            data = build_peer_open(spec, cf)
            sess.sent_open = True
            sess.open_tx = data
            spk.caps = peer_caps(spec, cf['peer_as'])
            spk.hold = spec['hold']
            sess.send(data)
            if sess.open_rx is not None and not sess.sent_ka:
                sess.sent_ka = True
                sess.send(R.keepalive())

        def on_established(sess) -> None:
            rec = getattr(sess, 'c07', None)
            if rec is None:
                return
            probes['established'] += 1
            rec['established'] = True

            # behavioural probes
            def probe_route() -> None:
                probes['probe_route'] += 1
                rec['route_probe_at'] = len(sess.updates)
                h.emit(f'peer {peer_ip} announce route 198.51.100.0/24 next-hop 10.0.0.9 path-information 5 as-path [ 65010 65011 ]\npeer {peer_ip} announce route 198.51.101.0/24 next-hop 10.0.0.9 path-information 6\n'.encode())

            def probe_big() -> None:
                if sess.state == 'closed':
                    return
                probes['probe_4097'] += 1
                rec['big_sent'] = True
                attrs = R.attribute(R.A_ORIGIN, b'\x00') + R.attribute(R.A_AS_PATH, R.enc_as_path([(2, [cf['peer_as']])], sess.ctx.asn4)) + R.attribute(R.A_NEXT_HOP, bytes([10, 0, 0, 2]))
                filler = R.attribute(201, b'z' * (4097 - 19 - 4 - len(attrs) - 4 - 4), flags=0xC0, extlen=True)
                msg = R.build_update(attrs=attrs + filler, nlri=bytes([24, 203, 0, 113]))
                assert len(msg) == 4097, len(msg)
                sess.send(msg)

            w.after(0.5, probe_route)
            w.after(2.0, probe_big)
            w.after(4.0, lambda: sess.close() if sess.state != 'closed' else None)

        spk.on_session.append(on_session)
        spk.on_established.append(on_established)

    attach(spk, list(plan['opens']), conf, PEER)
    if second:
        attach(spk2, list(second['opens']), conf2, PEER2)

    def driver() -> None:
        busy = False
        for sp in [spk] + ([spk2] if spk2 else []):
            cur = sp.current()
            if queues[sp.ip] or not (cur is None or cur.state == 'closed'):
                busy = True
            # an OPEN exabgp neither accepts nor refuses within 20 s is released
            if cur is not None and getattr(cur, 'c07', None) and cur.established_at is None and cur.state != 'closed' and w.loop.mono - cur_start(cur) > 20.0:
                cur.c07['stuck'] = True
                cur.reset()
        if not busy:
            w.signal('SHUTDOWN')
            return
        w.after(0.5, driver)

    def cur_start(s) -> float:
        return getattr(s, '_t0', None) or setattr(s, '_t0', w.loop.mono) or w.loop.mono

    w.at(0.5, driver)
    w.run(until=60.0 * (len(plan['opens']) + len((second or {}).get('opens', [])) + 1))

    violations = []
    for rec in records:
        v = judge(w, h, rec['conf'], rec, probes)
        if v:
            violations.append(v)
            break
    nontrivial = probes['established'] + probes['refusals'] > 0
    return result(w, violations, faults={'refusal_classes': probes['refusals']}, probes=probes, nontrivial=nontrivial, sample={'conf': {k: conf[k] for k in ('local_as', 'peer_as', 'hold', 'asn4', 'addpath', 'extmsg')}, 'opens': [o['kind'] for o in plan['opens']]})


def judge(w, h, conf, rec, probes):
    sess = rec['sess']
    spec = rec['spec']
    mine = sess.open_rx
    if mine is None:
        if sess.decode_errors:
            return viol('C07/own-open-undecodable', f'exabgp\'s OPEN does not decode: {sess.decode_errors[0]}')
        return None
    # (1) exabgp's OPEN advertises exactly what the configuration enables
    want_asn = conf['local_as'] if conf['local_as'] <= 65535 else R.AS_TRANS
    if mine['asn'] != want_asn:
        return viol('C07/open-as-field', f'OPEN My-AS field {mine["asn"]}, expected {want_asn} for local-as {conf["local_as"]}')
    if mine['hold'] != conf['hold']:
        return viol('C07/open-hold', f'OPEN hold time {mine["hold"]}, configured {conf["hold"]}')
    if sorted(mine['families']) != sorted(tuple(f) for f in conf['families']):
        return viol('C07/open-families', f'OPEN advertises families {sorted(mine["families"])}, configuration enables {sorted(tuple(f) for f in conf["families"])}')
    if (mine['asn4'] is not None) != bool(conf['asn4']) or (mine['asn4'] is not None and mine['asn4'] != conf['local_as']):
        return viol('C07/open-asn4', f'OPEN ASN4 capability {mine["asn4"]}, configuration asn4={conf["asn4"]} local-as {conf["local_as"]}')
    if mine['extmsg'] != bool(conf['extmsg']):
        return viol('C07/open-extended-message', f'OPEN extended-message capability {mine["extmsg"]}, configured {conf["extmsg"]}')
    if mine['refresh'] != bool(conf['refresh']):
        return viol('C07/open-route-refresh', f'OPEN route-refresh capability {mine["refresh"]}, configured {conf["refresh"]}')
    if (mine['gr'] is not None) != bool(conf['gr']) or (mine['gr'] is not None and mine['gr']['time'] != conf['gr']):
        return viol('C07/open-graceful-restart', f'OPEN graceful-restart {mine["gr"]}, configured {conf["gr"]}')
    mode = {'disable': 0, 'receive': 1, 'send': 2, 'send/receive': 3}[conf['addpath']]
    want_ap = {tuple(f): mode for f in conf['addpath_families']} if mode else {}
    if mine['addpath'] != want_ap:
        return viol('C07/open-add-path', f'OPEN ADD-PATH capability {mine["addpath"]}, configuration {want_ap}')
    if mine['ext']:
        probes['ext_params_form'] += 1
    if (mine['hostname'] is not None) != bool(conf['hostname']):
        pass  # host-name capability is only sent when configured; its absence/presence beyond that is not judged
    elif mine['hostname'] is not None and mine['hostname'][0].decode('utf-8', 'replace') != conf['hostname']:
        return viol('C07/open-hostname', f'OPEN hostname capability {mine["hostname"]}, configured {conf["hostname"]!r}')
    # (4) refusals
    notifs = [(b[0], b[1]) for c, t, mt, b in wire_messages(w, sess.conn.cid) if mt == R.NOTIFICATION and len(b) >= 2]
    refuse = expected_refusal(spec, conf)
    if refuse is not None:
        probes['refusals'] += 1
        if rec.get('established'):
            return viol('C07/invalid-open-accepted', f'peer OPEN of kind {spec["kind"]} must be refused with {refuse} but the session established', kind=spec['kind'])
        if not notifs or notifs[0] not in refuse:
            return viol('C07/wrong-open-error', f'peer OPEN of kind {spec["kind"]}: expected NOTIFICATION {refuse}, got {notifs[:1] or "none"} (stuck={rec.get("stuck", False)})', kind=spec['kind'], got=str(notifs[:1]))
        return None
    theirs = R.parse_open(sess.open_tx[19:])
    if not rec.get('established'):
        if notifs and notifs[0][0] == 2:
            # a refusal of an acceptable OPEN: only one case is defensible (no family in common is not a reason, hold/as/id are valid here)
            return viol('C07/valid-open-refused', f'acceptable peer OPEN (hold {theirs["hold"]}, caps {[c for c, _ in theirs["caps"]]}) refused with {notifs[0]}', got=str(notifs[0]))
        return None
    # (2) the negotiated event
    ref = reference_negotiation(conf, mine, theirs)
    ev = None
    for t, line in h.lines[rec['lines0'] :]:
        if '"type": "negotiated"' in line:
            try:
                doc = json.loads(line)
                if doc['neighbor']['address']['peer'] != rec.get('peer_ip', PEER):
                    continue  # the other neighbor's session
                ev = doc['neighbor']['negotiated']
            except (ValueError, KeyError):
                return viol('C07/negotiated-event-unparsable', line[:300])
            break
    if ev is None:
        return viol('C07/no-negotiated-event', 'the session established but no `negotiated` event reached the helper')
    if int(ev['hold_time']) != ref['hold']:
        return viol('C07/hold-time', f'negotiated hold time {ev["hold_time"]}, RFC min({mine["hold"]}, {theirs["hold"]}) = {ref["hold"]}', got=int(ev['hold_time']), want=ref['hold'])
    if bool(ev['asn4']) != ref['asn4']:
        return viol('C07/asn4', f'negotiated asn4 {ev["asn4"]}, both sides advertised it: {ref["asn4"]}')
    if int(ev['message_size']) != ref['msg_size']:
        return viol('C07/message-size', f'negotiated message size {ev["message_size"]}, expected {ref["msg_size"]} (ours {mine["extmsg"]}, theirs {theirs["extmsg"]})')
    peer_sent_mp = bool(theirs['families'])
    if peer_sent_mp:
        got_f = sorted(ev['families'])
        want_f = sorted(fam_txt(f) for f in ref['families'])
        if got_f != want_f:
            return viol('C07/families', f'negotiated families {got_f}, intersection is {want_f}', got=str(got_f), want=str(want_f))
        got_s = sorted(ev['add_path']['send'])
        got_r = sorted(ev['add_path']['receive'])
        if got_s != sorted(fam_txt(f) for f in ref['send']) or got_r != sorted(fam_txt(f) for f in ref['recv']):
            return viol('C07/add-path', f'negotiated ADD-PATH send {got_s} receive {got_r}; RFC 7911: send {sorted(fam_txt(f) for f in ref["send"])} receive {sorted(fam_txt(f) for f in ref["recv"])} (ours {mine["addpath"]}, theirs {theirs["addpath"]})')
    want_refresh = {'enhanced': 'enhanced', 'normal': 'normal', 'absent': 'absent'}[ref['refresh']]
    if mine['enh_refresh'] or not theirs['enh_refresh']:
        if str(ev['refresh']) != want_refresh and not (want_refresh == 'absent' and str(ev['refresh']) in ('absent', 'unset', 'None', 'none')):
            return viol('C07/route-refresh', f'negotiated refresh {ev["refresh"]!r}, expected {want_refresh} (ours refresh={mine["refresh"]} enhanced={mine["enh_refresh"]}, theirs refresh={theirs["refresh"]} enhanced={theirs["enh_refresh"]})')
    # (3) behavioural probes
    if rec.get('big_sent'):
        closed_12 = any(n == (1, 2) for n in notifs)
        if ref['msg_size'] == 65535 and closed_12:
            return viol('C07/probe-extended-message', 'extended messages were negotiated but a 4097-byte UPDATE was refused with 1/2')
        if ref['msg_size'] == 4096 and not closed_12:
            return viol('C07/probe-extended-message', f'extended messages were not negotiated but a 4097-byte UPDATE was not refused with 1/2 (notifications {notifs})')
    ups = [(t, body) for t, body, d in sess.updates[rec.get('route_probe_at', 0) :]]
    probe = None
    ctx = R.Ctx(asn4=ref['asn4'], addpath={f: True for f in ref['send']})
    for t, body in ups:
        try:
            d = R.decode_update(body, ctx)
        except R.RefError as exc:
            return viol('C07/probe-undecodable', f'an UPDATE sent on this session does not decode under the negotiated parameters (asn4={ref["asn4"]}, ADD-PATH send {ref["send"]}): {exc}; body {body.hex()[:120]}')
        for n, nh in d['announce']:
            if n['prefix'] == '198.51.100.0/24':
                probe = (n, d['attrs'])
    probe2 = None
    for t, body in ups:
        d = R.decode_update(body, ctx)
        for n, nh in d['announce']:
            if n['prefix'] == '198.51.101.0/24':
                probe2 = (n, d['attrs'])
    ebgp = conf['local_as'] != conf['peer_as']
    if probe is not None:
        n, attrs = probe
        has_pid = n['pathid'] is not None
        if has_pid != ((1, 1) in ref['send']):
            return viol('C07/probe-add-path', f'ADD-PATH send for ipv4 unicast is {(1, 1) in ref["send"]} but the UPDATE {"carries" if has_pid else "lacks"} a path identifier')
        flat = [a for t_, seg in (attrs.get('as_path_merged') or []) for a in seg]
        if flat != [65010, 65011]:
            return viol('C07/probe-as-path', f'the operator wrote as-path [ 65010 65011 ]; the peer decodes {flat} (raw {attrs.get("as_path")}, AS4_PATH {attrs.get("as4_path")})')
    if probe2 is not None:
        n, attrs = probe2
        flat = [a for t_, seg in (attrs.get('as_path_merged') or []) for a in seg]
        want = [conf['local_as']] if ebgp else []
        if flat != want:
            return viol('C07/probe-default-as-path', f'route without as-path on an {"eBGP" if ebgp else "iBGP"} session (local-as {conf["local_as"]}, peer-as {conf["peer_as"]}, asn4 negotiated {ref["asn4"]}): the peer decodes AS_PATH {flat} (raw {attrs.get("as_path")}, AS4_PATH {attrs.get("as4_path")}), expected {want}', ebgp=ebgp, local_as=conf['local_as'])
        if not ref['asn4']:
            raw = [a for t_, seg in attrs.get('as_path', []) for a in seg]
            if any(a > 65535 for a in raw):
                return viol('C07/probe-as-width', f'2-byte session but AS_PATH carries {raw}')
        if ebgp and 'local_pref' in attrs:
            return viol('C07/probe-local-pref-ebgp', f'LOCAL_PREF {attrs["local_pref"]} sent on an eBGP session')
        if not ebgp and attrs.get('local_pref') != 100:
            return viol('C07/probe-local-pref-ibgp', f'iBGP session: LOCAL_PREF {attrs.get("local_pref")}, default is 100')
    return None


def shrink_candidates(plan: dict):
    from exasim.runner import generic_candidates

    yield from generic_candidates(plan, ['opens'])
    for i, o in enumerate(plan['opens']):
        for c in generic_candidates(o, ['caps']):
            p = jclone(plan)
            p['opens'][i] = c
            yield p
        if o.get('pad') or o.get('ext'):
            p = jclone(plan)
            p['opens'][i]['pad'] = 0
            p['opens'][i]['ext'] = None
            yield p
    c = plan['conf']
    for key, val in (('hostname', None), ('domain', None), ('gr', 0), ('nexthop', False), ('addpath', 'disable'), ('extmsg', False)):
        if c.get(key) != val:
            p = jclone(plan)
            p['conf'][key] = val
            if key == 'addpath':
                p['conf']['addpath_families'] = []
            yield p
    if len(c['families']) > 1:
        p = jclone(plan)
        p['conf']['families'] = [(1, 1)]
        p['conf']['addpath_families'] = [f for f in c['addpath_families'] if tuple(f) == (1, 1)]
        yield p
    k = plan['knobs']
    if k.get('tick') != 0.002 or k.get('drift') or k.get('wall_step'):
        p = jclone(plan)
        p['knobs'].update({'tick': 0.002, 'drift': 0.0, 'wall_step': 0.0})
        yield p
