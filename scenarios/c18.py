"""C18 - route text is accepted if and only if it can be sent."""

from __future__ import annotations

from scenarios import routes as RT
from scenarios.common import R, Speaker, config_text, jclone, knobs, make_world, result, speaker_caps, viol

ID = 'C18'
LEVEL = 'exploration'
LEVEL_TEXT = (
    'boundary refinement through the running speaker: route definitions with one numeric or length field at -1, 0, max, max+1 and far '
    'beyond (AS 65535/65536/2^32-1/2^32, label 2^20-1/2^20, MED and LOCAL_PREF 2^32-1/2^32, community halves, large-community parts, '
    'extended-community forms, masks 32/33 and 128/129, path-id, RD forms, AIGP, next hops, generic attribute code/flags) are offered '
    'through the real API and through a reloaded configuration file to sessions of two kinds; oracle: one verdict per definition and the '
    'same on both paths (error reply / located configuration error, or acceptance), never an exception; acceptance implies every session '
    'receives an UPDATE that reference-decodes to the values as written and no peer task dies; an independent validity table says '
    'which values the RFCs allow (must be accepted) and which the wire cannot hold (must be refused).'
    ' Definitions are also written in the nested `route <prefix> { ... }` spelling.'
    ' Half of the flat definitions of 40 % of the plans use the per-family spelling (`announce ipv4 unicast ...`, `announce { ipv4 { unicast ...; } }`); definitions without next hop, `attributes ... nlri` over two address families, flow prefixes the parser recognises as nothing, flow statements out of component order, vpls without next hop.'
)
LEVEL_NOTE = 'trusts: the validity table in this file (cells where the RFCs are arguable are marked None and only judged for "no exception, one verdict, values as written if accepted") and the reference codec'
DESIGN_REF = 'DESIGN.md section 5, C18'
RULE = (
    'plan = 2 session kinds x 5-40 definitions (route, flow, vpls or attributes...nlri), each with one boundary-valued field; a subset is also offered through a '
    'configuration reload; non-trivial = at least one definition at or beyond a boundary was judged on both paths; distinct = digests of '
    '(kinds, definitions); the field x value grid is enumerated once per tier'
)
ASSUMPTIONS = [
    'AS 0 and attribute sets larger than one message are not judged for acceptance (arguable), only for the absence of exceptions and of session loss',
    'an API error reply whose text reports an unexpected exception (the handlers\' catch-all) counts as an unhandled exception, and so does any exception other than ValueError / configuration Error / Notify reaching Configuration.reload()\'s catch-all',
    'a rate-limit above 1e12 bytes/s is clamped to 1e12 with a logged warning (a deliberate guard in the flow parser): judged for one verdict / no exception only',
    'arguable and only judged for one verdict / no exception: a 2-byte fragment bitmask, an IPv6 flow prefix whose offset exceeds its length, a negative rate-limit (an IEEE float can hold it), a VPLS label block ending exactly at label 1048575',
]

U32 = 4294967295


def fields():
    """name -> list of (token text, validity True/False/None, structured override or None)"""
    f = {}
    f['mask4'] = [('0.0.0.0/0', True, {'p': '0.0.0.0/0'}), ('10.1.2.3/24', None, None), ('10.1.2.3/32', True, {'p': '10.1.2.3/32'}), ('10.1.2.0/33', False, None), ('10.1.2.0/-1', False, None), ('10.1.2.0/256', False, None), ('10.1.2.256/24', False, None)]
    f['mask6'] = [('2001:db8::1/128', True, {'p': '2001:db8::1/128', 'fam': 'v6u', 'nh': '2001:db8::9'}), ('2001:db8::/129', False, None), ('::/0', True, {'p': '::/0', 'fam': 'v6u', 'nh': '2001:db8::9'}), ('2001:db8::/-1', False, None), ('2001:db8:::/64', False, None), ('2001:db8::10000/128', False, None)]
    f['nexthop'] = [('10.0.0.255', True, {'nh': '10.0.0.255'}), ('999.2.3.4', False, None), ('10.0.0', False, None), ('self', True, {'nh': 'self'}),
                    ('2001:db8::9', True, {'nh': '2001:db8::9'})]  # (RFC 8950, negotiated on every session of this scenario: the IPv4 prefix leaves in MP_REACH_NLRI)
    for kw, key in (('med', 'med'), ('local-preference', 'lp')):
        f[kw] = [(f'{kw} 0', True, {'attrs': {key: 0}}), (f'{kw} {U32}', True, {'attrs': {key: U32}}), (f'{kw} {U32 + 1}', False, None), (f'{kw} -1', False, None), (f'{kw} 99999999999999999999', False, None), (f'{kw} banana', False, None)]
    f['aspath'] = [
        ('as-path [ 65535 ]', True, {'attrs': {'aspath': [[2, [65535]]]}}), ('as-path [ 65536 ]', True, {'attrs': {'aspath': [[2, [65536]]]}}),
        (f'as-path [ 1 {U32} 23456 ]', True, {'attrs': {'aspath': [[2, [1, U32, 23456]]]}}), (f'as-path [ {U32 + 1} ]', False, None), ('as-path [ -1 ]', False, None),
        ('as-path [ 65001 banana ]', False, None), ('as-path [ ' + ' '.join(str(64512 + i % 100) for i in range(256)) + ' ]', True, {'attrs': {'aspath': [[2, [64512 + i % 100 for i in range(256)]]]}}),
        ('as-path [ 0 ]', None, {'attrs': {'aspath': [[2, [0]]]}}),
        ('as-path 65535', True, {'attrs': {'aspath': [[2, [65535]]]}}), ('as-path 65536', True, {'attrs': {'aspath': [[2, [65536]]]}}), (f'as-path {U32}', True, {'attrs': {'aspath': [[2, [U32]]]}}),
        (f'as-path {U32 + 1}', False, None), ('as-path banana', False, None),
        ('as-path [ 4200000000 65001 ] ( 65002 65003 )', True, {'attrs': {'aspath': [[2, [4200000000, 65001]], [1, [65002, 65003]]]}}),
        ('as-path [ 65001 ] ( 4200000000 65003 )', True, {'attrs': {'aspath': [[2, [65001]], [1, [4200000000, 65003]]]}}),
        ('as-path [ 65001 65002 ] ( 65003 ) [ 4200000000 ]', True, {'attrs': {'aspath': [[2, [65001, 65002]], [1, [65003]], [2, [4200000000]]]}}),
    ]  # fmt: skip
    f['community'] = [
        ('community [ 65535:65535 ]', True, {'attrs': {'comm': [[65535, 65535]]}}), ('community [ 0:0 ]', True, {'attrs': {'comm': [[0, 0]]}}), ('community [ 65536:1 ]', False, None),
        ('community [ 1:65536 ]', False, None), ('community [ -1:1 ]', False, None), ('community [ 1:2:3 ]', False, None), ('community [ banana ]', False, None),
        ('community 65535:65535', True, {'attrs': {'comm': [[65535, 65535]]}}), ('community 65536:0', False, None), ('community 4294967295', True, {'attrs': {'comm': [[65535, 65535]]}}),
        ('community 4294967296', False, None), ('community 0xffffffff', True, {'attrs': {'comm': [[65535, 65535]]}}), ('community 0x100000000', False, None),
        ('community [ ' + ' '.join(f'65000:{i}' for i in range(256)) + ' ]', True, {'attrs': {'comm': [[65000, i] for i in range(256)]}}),
    ]  # fmt: skip
    f['large'] = [
        (f'large-community [ {U32}:{U32}:{U32} ]', True, {'attrs': {'large': [[U32, U32, U32]]}}), (f'large-community [ {U32 + 1}:1:1 ]', False, None),
        (f'large-community [ 1:{U32 + 1}:1 ]', False, None), (f'large-community {U32}:0:{U32}', True, {'attrs': {'large': [[U32, 0, U32]]}}), (f'large-community 1:1:{U32 + 1}', False, None), ('large-community [ 1:2 ]', False, None), ('large-community [ 1:2:-3 ]', False, None),
    ]  # fmt: skip
    f['ext'] = [
        (f'extended-community [ target:65535:{U32} ]', True, {'attrs': {'ext': [f'target:65535:{U32}']}}), ('extended-community [ target:65536:65535 ]', True, {'attrs': {'ext': ['target:65536:65535']}}),
        ('extended-community [ target:65536:65536 ]', False, None), (f'extended-community [ target:{U32 + 1}:1 ]', False, None), ('extended-community [ target:1.2.3.4:65535 ]', True, {'attrs': {'ext': ['target:1.2.3.4:65535']}}),
        ('extended-community [ target:1.2.3.4:65536 ]', False, None), (f'extended-community [ target:65535:{U32 + 1} ]', False, None), ('extended-community [ target:1.2.3.256:1 ]', False, None),
        ('extended-community [ 0x0002fde8000000 ]', False, None), ('extended-community [ 0x0002fde800000001ff ]', False, None), ('extended-community [ frobnicate:1:2 ]', False, None), ('extended-community [ origin:65535:4294967296 ]', False, None), ('extended-community [ origin:1.2.3.4:65536 ]', False, None), ('extended-community [ target:-1:1 ]', False, None), ('extended-community [ target:1:2:3 ]', False, None), ('extended-community [ 0x0002fde80000zz01 ]', False, None), ('extended-community [ target:: ]', False, None),
    ]  # fmt: skip
    f['label'] = [('label 1048575', True, {'fam': 'v4l', 'labels': [1048575]}), ('label 1048576', False, None), ('label [ 100 1048575 ]', True, {'fam': 'v4l', 'labels': [100, 1048575]}), ('label [ 100 1048576 ]', False, None), ('label [ 0 ]', True, {'fam': 'v4l', 'labels': [0]}), ('label [ 1048575 ]', True, {'fam': 'v4l', 'labels': [1048575]}), ('label [ 1048576 ]', False, None), ('label [ -1 ]', False, None), ('label [ banana ]', False, None)]
    f['rd'] = [
        (f'rd 65535:{U32} label [ 100 ]', True, {'fam': 'v4vpn', 'rd': f'65535:{U32}', 'labels': [100]}), ('rd 65536:65535 label [ 100 ]', True, {'fam': 'v4vpn', 'rd': '65536:65535', 'labels': [100]}),
        ('rd 65536:65536 label [ 100 ]', False, None), ('rd 1.2.3.4:65535 label [ 100 ]', True, {'fam': 'v4vpn', 'rd': '1.2.3.4:65535', 'labels': [100]}), ('rd 1.2.3.4:65536 label [ 100 ]', False, None),
        (f'rd {U32 + 1}:1 label [ 100 ]', False, None), (f'rd 65535:{U32 + 1} label [ 100 ]', False, None), ('rd banana label [ 100 ]', False, None), ('rd 1.2.3.256:1 label [ 100 ]', False, None), ('rd 65000:banana label [ 100 ]', False, None), ('rd 1.2.3:1 label [ 100 ]', False, None), ('rd -1:1 label [ 100 ]', False, None),
    ]  # fmt: skip
    # no next hop at all: nothing but a flow rule can be announced without one, whatever else the definition holds
    f['nonexthop'] = [('', False, None), ('label [ 100 ]', False, None), ('rd 65000:1 label [ 100 ]', False, None), ('label [ 100 ] path-information 5', False, None)]
    # `attributes ... nlri` with prefixes of both address families: one next hop, one family - it cannot be sent as written
    f['attrmixed'] = [('10.77.{n}.0/24 2001:db8:{n}::/48', False, None), ('2001:db8:{n}::/48 10.77.{n}.0/24', False, None), ('2001:db8:{n}::/48 10.77.{n}.0/24 10.78.{n}.0/24', False, None)]
    f['pathid'] = [('path-information 0', True, {'pid': 0}), (f'path-information {U32}', True, {'pid': U32}), (f'path-information {U32 + 1}', False, None), ('path-information -1', False, None), ('path-information 1.2.3.4', True, {'pid': 16909060}), ('path-information 1.2.3.256', False, None), ('path-information 1.2.3', False, None), ('path-information banana', False, None)]
    f['aggregator'] = [(f'aggregator {U32}:10.0.0.1', True, {'attrs': {'aggregator': [U32, '10.0.0.1']}}), (f'aggregator {U32 + 1}:10.0.0.1', False, None), (f'aggregator ( {U32}:10.0.0.1 )', True, {'attrs': {'aggregator': [U32, '10.0.0.1']}}), (f'aggregator ( {U32 + 1}:10.0.0.1 )', False, None), ('aggregator ( 65000:10.0.0.256 )', False, None), ('aggregator ( 65000 )', False, None)]
    f['originator'] = [('originator-id 255.255.255.255', True, {'attrs': {'originator': '255.255.255.255'}}), ('originator-id 1.2.3.256', False, None), ('originator-id banana', False, None)]
    f['cluster'] = [('cluster-list 255.255.255.255', True, {'attrs': {'cluster': ['255.255.255.255']}}), ('cluster-list 1.1.1.256', False, None), ('cluster-list [ 1.1.1.1 255.255.255.255 ]', True, {'attrs': {'cluster': ['1.1.1.1', '255.255.255.255']}}), ('cluster-list [ 1.1.1.256 ]', False, None)]
    f['aigp'] = [('aigp 0', True, {'attrs': {'aigp': 0}}), (f'aigp {(1 << 64) - 1}', True, {'attrs': {'aigp': (1 << 64) - 1}}), (f'aigp {1 << 64}', False, None), ('aigp -1', False, None)]
    f['origin'] = [('origin incomplete', True, {'attrs': {'origin': 'incomplete'}}), ('origin sideways', False, None)]
    f['generic'] = [
        ('attribute [ 0xff 0xc0 0x00 ]', True, {'attrs': {'generic': [255, 0xC0, '00']}}), ('attribute [ 0x100 0xc0 0x00 ]', False, None), ('attribute [ 0x63 0x1c0 0x00 ]', False, None),
        ('attribute [ 0x63 0xc0 0x0 ]', False, None), ('attribute [ 0x63 0xc0 0xzz ]', False, None), ('attribute [ 0x63 0xc0 ]', False, None),
    ] + [
        # a value crossing the one-byte attribute length, written with and without the extended-length flag
        (f'attribute [ 0x63 {fl:#x} 0x{"ab" * n} ]', True, {'attrs': {'generic': [0x63, fl, 'ab' * n]}}) for n in (255, 256, 300, 1000) for fl in (0xC0, 0xD0, 0xE0)
    ]  # fmt: skip
    f['split'] = [('split /25', True, {'split': 25}), ('split /33', None, None), ('split /24', None, None), ('split /8', None, None), ('split banana', False, None),
                  # splitting a labelled or a VPN route: every piece keeps the label and the route distinguisher
                  ('label [ 100 ] split /25', True, {'fam': 'v4l', 'labels': [100], 'split': 25}),
                  ('rd 65000:1 label [ 100 ] split /25', True, {'fam': 'v4vpn', 'rd': '65000:1', 'labels': [100], 'split': 25}),
                  ('rd 65000:1 label [ 100 ] split /26', True, {'fam': 'v4vpn', 'rd': '65000:1', 'labels': [100], 'split': 26})]  # fmt: skip
    f['keyword'] = [('frobnicate 12', False, None), ('med', False, None), ('', True, {})]
    return f


def more_fields(f: dict) -> None:
    """flow, vpls and `attributes ... nlri` definitions (the property names them next to routes)"""
    from refbgp import flow as FL

    d0 = [FL.ec_rate_bytes(0, 0.0).hex()]

    def num(t, v, **kw):
        return [t, [[False, kw.get('lt', False), kw.get('gt', False), kw.get('eq', True), v, None]]]

    src4 = [2, ['10.0.0.1', 32, 0]]
    f['flow'] = [
        # two actions in one rule, then (the following cells) rules with `discard` alone: what one definition added stays its own
        (('source 10.0.0.1/32;', 'discard; mark 10;'), True, {'kind': 'flow', 'afi': 1, 'comps': [src4], 'ecs': sorted(d0 + [FL.ec_mark(10).hex()])}),
        (('destination 10.0.0.1/32;', 'discard;'), True, {'kind': 'flow', 'afi': 1, 'comps': [[1, ['10.0.0.1', 32, 0]]], 'ecs': d0}),
        (('destination 10.0.0.0/33;', 'discard;'), False, None), (('source 10.0.0.256/32;', 'discard;'), False, None), (('source 10.0.0.0/-1;', 'discard;'), False, None),
        (('destination-port =65535;', 'discard;'), True, {'kind': 'flow', 'afi': 1, 'comps': [num(5, 65535)], 'ecs': d0}), (('destination-port =65536;', 'discard;'), False, None),
        (('destination-port =-1;', 'discard;'), False, None), (('source-port >=0&<=65535;', 'discard;'), True, {'kind': 'flow', 'afi': 1, 'comps': [[6, [[False, False, True, True, 0, None], [True, True, False, True, 65535, None]]]], 'ecs': d0}),
        (('port =banana;', 'discard;'), False, None), (('protocol =255;', 'discard;'), True, {'kind': 'flow', 'afi': 1, 'comps': [num(3, 255)], 'ecs': d0}), (('protocol =256;', 'discard;'), False, None),
        (('packet-length =65535;', 'discard;'), True, {'kind': 'flow', 'afi': 1, 'comps': [num(10, 65535)], 'ecs': d0}), (('packet-length =65536;', 'discard;'), False, None),
        (('dscp =63;', 'discard;'), True, {'kind': 'flow', 'afi': 1, 'comps': [num(11, 63)], 'ecs': d0}), (('dscp =64;', 'discard;'), False, None),
        (('icmp-type =255;', 'discard;'), True, {'kind': 'flow', 'afi': 1, 'comps': [num(7, 255)], 'ecs': d0}), (('icmp-type =256;', 'discard;'), False, None),
        (('icmp-code =255;', 'discard;'), True, {'kind': 'flow', 'afi': 1, 'comps': [num(8, 255)], 'ecs': d0}), (('icmp-code =256;', 'discard;'), False, None),
        (('tcp-flags [ 0xff ];', 'discard;'), True, {'kind': 'flow', 'afi': 1, 'comps': [[9, [[False, False, False, 255, None]]]], 'ecs': d0}), (('tcp-flags [ 0x10000 ];', 'discard;'), False, None),
        (('fragment [ 0xf ];', 'discard;'), True, {'kind': 'flow', 'afi': 1, 'comps': [[12, [[False, False, False, 15, None]]]], 'ecs': d0}), (('fragment [ 0x100 ];', 'discard;'), None, None),
        (('destination 2001:db8::/128/0;', 'discard;'), True, {'kind': 'flow', 'afi': 2, 'comps': [[1, ['2001:db8::', 128, 0]]], 'ecs': d0}), (('destination 2001:db8::/129/0;', 'discard;'), False, None),
        (('destination 2001:db8::/64/65;', 'discard;'), None, None), (('source 2001:db8::/32/0; flow-label =1048575;', 'discard;'), True, {'kind': 'flow', 'afi': 2, 'comps': [[2, ['2001:db8::', 32, 0]], num(13, 1048575)], 'ecs': d0}),
        (('source 2001:db8::/32/0; flow-label =1048576;', 'discard;'), False, None), (('source 10.0.0.1/32; flow-label =5;', 'discard;'), False, None),
        (('source 10.0.0.1/32;', 'rate-limit 0;'), True, {'kind': 'flow', 'afi': 1, 'comps': [src4], 'ecs': d0}), (('source 10.0.0.1/32;', 'rate-limit -1;'), None, None), (('source 10.0.0.1/32;', 'rate-limit banana;'), False, None),
        (('source 10.0.0.1/32;', f'redirect 65535:{U32};'), True, {'kind': 'flow', 'afi': 1, 'comps': [src4], 'ecs': [FL.ec_redirect_as2(65535, U32).hex()]}), (('source 10.0.0.1/32;', f'redirect 65535:{U32 + 1};'), False, None),
        (('source 10.0.0.1/32;', 'redirect 65536:65535;'), True, {'kind': 'flow', 'afi': 1, 'comps': [src4], 'ecs': [FL.ec_redirect_as4(65536, 65535).hex()]}), (('source 10.0.0.1/32;', 'redirect 65536:65536;'), False, None),
        (('source 10.0.0.1/32;', f'redirect {U32 + 1}:1;'), False, None), (('source 10.0.0.1/32;', 'mark 63;'), True, {'kind': 'flow', 'afi': 1, 'comps': [src4], 'ecs': [FL.ec_mark(63).hex()]}),
        (('source 10.0.0.1/32;', 'mark 64;'), False, None), (('source 10.0.0.1/32;', 'mark -1;'), False, None), (('source 10.0.0.1/32;', 'action frobnicate;'), False, None),
        (('source 10.0.0.1/32;', 'action sample-terminal;'), True, {'kind': 'flow', 'afi': 1, 'comps': [src4], 'ecs': [FL.ec_action(True, True).hex()]}),
    ]  # fmt: skip

    f['flow'] += [
        # a prefix the parser recognises as nothing (no length, not an address): refused, never a rule that lost the match
        (('destination 2001:db8::1; destination-port =80;', 'discard;'), False, None), (('source banana; destination-port =80;', 'discard;'), False, None),
        (('source 2001:db8::1; protocol =6;', 'discard;'), False, None),
        # match statements written against the component order: what is sent is ordered by component type (RFC 8955 4.2)
        (('source 10.0.0.1/32; destination 10.0.0.2/32;', 'discard;'), True, {'kind': 'flow', 'afi': 1, 'comps': [[1, ['10.0.0.2', 32, 0]], src4], 'ecs': d0}),
        (('packet-length =1500; protocol =6; source 10.0.0.1/32;', 'discard;'), True, {'kind': 'flow', 'afi': 1, 'comps': [src4, num(3, 6), num(10, 1500)], 'ecs': d0}),
        # an offset a byte cannot hold; components of both address families in one rule; a rate an IEEE float holds exactly
        (('destination 2001:db8::/64/300;', 'discard;'), False, None),
        (('destination 10.0.0.1/32; source 2001:db8::/32/0;', 'discard;'), False, None),
        (('source 10.0.0.1/32;', 'rate-limit 1000000000000;'), True, {'kind': 'flow', 'afi': 1, 'comps': [src4], 'ecs': [FL.ec_rate_bytes(0, 1000000000000.0).hex()]}),
        (('source 10.0.0.1/32;', 'rate-limit 2199023255552;'), None, None),  # above 1e12 exabgp clamps and logs a warning, on purpose: one verdict / no exception only
    ]

    def ports(vals):
        return 'source 10.0.0.1/32; destination-port [ ' + ' '.join(f'={v}' for v in vals) + ' ];', [5, [[False, False, False, True, v, None] for v in vals]]

    # rules whose NLRI is 239, 240 and 241 bytes: the length field goes from one byte to two (0xF0nn) at 240
    for vals in ([200, 201] + list(range(1000, 1076)), [200] + list(range(1000, 1077)), list(range(1000, 1078))):
        text, comp = ports(vals)
        f['flow'].append(((text, 'discard;'), True, {'kind': 'flow', 'afi': 1, 'comps': [src4, comp], 'ecs': d0}))

    def vp(e=5, b=10702, o=1, sz=8, rd='65000:1'):
        return f'rd {rd} endpoint {e} base {b} offset {o} size {sz} next-hop 10.0.0.9'

    def vexp(e=5, b=10702, o=1, sz=8):
        return {'kind': 'vpls', 've': e, 'base': b, 'offset': o, 'size': sz}

    f['vpls'] = [
        (vp(), True, vexp()), (vp(e=65535), True, vexp(e=65535)), (vp(e=65536), False, None), (vp(e=-1), False, None), (vp(o=65535), True, vexp(o=65535)), (vp(o=65536), False, None),
        (vp(sz=65535), True, vexp(sz=65535)), (vp(sz=65536), False, None), (vp(b=1048574, sz=1), True, vexp(b=1048574, sz=1)), (vp(b=1048575, sz=1), None, vexp(b=1048575, sz=1)), (vp(b=1048576, sz=1), False, None), (vp(b='banana'), False, None),
        (vp(rd='65536:65536'), False, None), (vp(rd='banana'), False, None),
        (vp().replace(' next-hop 10.0.0.9', ''), False, None),  # no next hop: cannot be announced
    ]  # fmt: skip
    f['attributes'] = [
        (f'med {U32}', True, {'kind': 'attributes', 'attrs': {'med': U32}}), (f'med {U32 + 1}', False, None), ('local-preference -1', False, None),
        ('community [ 65535:65535 ]', True, {'kind': 'attributes', 'attrs': {'comm': [[65535, 65535]]}}), ('community [ 65536:0 ]', False, None),
        (f'as-path [ {U32} ]', True, {'kind': 'attributes', 'attrs': {'aspath': [[2, [U32]]]}}), (f'as-path [ {U32 + 1} ]', False, None), ('origin sideways', False, None),
    ]  # fmt: skip


FIELDS = fields()
more_fields(FIELDS)
CELLS = [(name, i) for name, vals in FIELDS.items() for i in range(len(vals))]


APPENDABLE = ('local-preference', 'aspath', 'community', 'large', 'ext', 'pathid', 'aggregator', 'originator', 'cluster', 'aigp', 'origin', 'generic')


def counts(tier: str):
    return (1500, 75.0) if tier == 'quick' else (12000, 900.0)


def kinds_for(rng) -> list[dict]:
    ks = [RT.gen_kind(rng, 0), RT.gen_kind(rng, 1)]
    ks[0]['peer_asn4'] = True
    ks[1]['peer_asn4'] = False
    if ks[1]['peer_as'] > 65535:
        ks[1]['peer_as'] = 65003 if ks[1]['local_as'] != 65003 else 65004
    ks[0]['addpath'] = ks[1]['addpath'] = True
    for k in ks:
        k.pop('ap_local', None)
        k.pop('ap_peer', None)
        k['nexthop_ext'] = True
    return ks


def generate(rng, tier: str, index: int) -> dict:
    cells = [list(c) for c in rng.sample(CELLS, rng.randint(5, 40 if tier == 'thorough' else 20))]
    for c in cells:
        # a second boundary-valued attribute in the same definition
        if c[0] in APPENDABLE and rng.random() < 0.3:
            other = rng.choice([o for o in CELLS if o[0] in APPENDABLE and o[0] != c[0]])
            c.extend(other)
    for c in cells:
        # the same definition in the nested spelling `route <prefix> { next-hop ...; <statement>; }` (another walk through the parser,
        # which keeps state between the statements of one route - and must drop it when the route is refused)
        if c[0] in APPENDABLE and all(x in APPENDABLE for x in c[2::2]) and rng.random() < 0.25:
            c.append('nested')
    return {'micro_seed': rng.randint(1, 1 << 48), 'knobs': knobs(rng), 'kinds': kinds_for(rng), 'cells': [list(c) for c in cells], 'nconf': rng.randint(0, 6), 'mode': rng.choice(['both', 'both', 'conf']),
            'family_form': rng.fork('family-form').chance(0.4)}  # fmt: skip


def grid(tier: str):
    from exasim.choice import Rng

    plans = []
    chunk = 24
    for start in range(0, len(CELLS), chunk):
        rng = Rng(9000 + start)
        plans.append({'micro_seed': 9000 + start, 'knobs': {'tick': 0.002, 'drift': 0.0, 'wall_step': 0.0}, 'kinds': kinds_for(rng), 'cells': [list(c) for c in CELLS[start : start + chunk]], 'nconf': 8, 'mode': 'both'})
        plans.append(dict(jclone(plans[-1]), mode='conf', nconf=chunk))
        plans.append(dict(jclone(plans[-2]), nconf=chunk, family_form=True))
    return plans


def definition(cell, n: int):
    """-> (route text, validity, structured route or None)"""
    nested = bool(cell) and cell[-1] == 'nested'
    if nested:
        cell = cell[:-1]
    name, i = cell[0], cell[1]
    tok, valid, over = FIELDS[name][i]
    toks = [tok]
    if len(cell) > 2:
        tok2, valid2, over2 = FIELDS[cell[2]][cell[3]]
        toks.append(tok2)
        tok = tok + ' ' + tok2
        valid = False if (valid is False or valid2 is False) else (None if (valid is None or valid2 is None) else True)
        if valid is True:
            over = jclone(over)
            over.setdefault('attrs', {}).update(over2.get('attrs', {}))
            for k, v in over2.items():
                if k != 'attrs':
                    over[k] = v
        else:
            over = None
    if name == 'flow':
        # one NLRI per definition (the same rule entered again would replace the earlier one)
        uniq = f'10.0.{n % 250}.1'
        m = tok[0].replace('10.0.0.1/32', uniq + '/32')
        if over is not None:
            over = jclone(over)
            for c in over['comps']:
                if c[0] in (1, 2) and c[1][0] == '10.0.0.1':
                    c[1][0] = uniq
            if not any(c[0] in (1, 2) for c in over['comps']):
                # no prefix in the cell: add a distinguishing source prefix
                m = f'source {uniq}/32; ' + m if over['afi'] == 1 else m
                if over['afi'] == 1:
                    over['comps'].append([2, [uniq, 32, 0]])
        return 'flow route { match { ' + m + ' } then { ' + tok[1] + ' } }', valid, over
    if name == 'vpls':
        return 'vpls ' + tok, valid, over
    if name == 'attributes':
        r2 = None
        if over is not None:
            r2 = {'kind': 'attributes', 'routes': [{'fam': 'v4u', 'p': f'10.77.{n}.0/24', 'nh': '10.0.0.9', 'attrs': dict(over['attrs'])}, {'fam': 'v4u', 'p': f'10.78.{n}.0/24', 'nh': '10.0.0.9', 'attrs': dict(over['attrs'])}]}
        return f'attributes next-hop 10.0.0.9 {tok} nlri 10.77.{n}.0/24 10.78.{n}.0/24', valid, r2
    base = {'fam': 'v4u', 'p': f'10.77.{n}.0/24', 'nh': '10.0.0.9', 'attrs': {'med': 1000 + n}}
    if name in ('mask4', 'mask6'):
        text = f'route {tok} next-hop {"2001:db8::9" if name == "mask6" else "10.0.0.9"} med {1000 + n}'
    elif name == 'nexthop':
        text = f'route 10.77.{n}.0/24 next-hop {tok} med {1000 + n}'
    elif name == 'attrmixed':
        text = f'attributes next-hop 10.0.0.9 med {1000 + n} nlri ' + tok.replace('{n}', str(n))
    elif name == 'nonexthop':
        text = f'route 10.77.{n}.0/24 med {1000 + n} {tok}'.rstrip()
    else:
        text = f'route 10.77.{n}.0/24 next-hop 10.0.0.9 med {1000 + n} {tok}'.rstrip()
        if name in ('med',):
            text = f'route 10.77.{n}.0/24 next-hop 10.0.0.9 {tok}'
        if nested:
            stmts = ['next-hop 10.0.0.9', f'med {1000 + n}'] + [t for t in toks if t]
            if n % 2:
                stmts = stmts[1:] + stmts[:1]  # the statements of a block come in any order: here the next hop is written last
            text = f'route 10.77.{n}.0/24 {{ ' + ' '.join(t + ';' for t in stmts) + ' }'
    r = None
    if over is not None:
        r = jclone(base)
        for k, v in over.items():
            if k == 'attrs':
                r['attrs'].update(v)
            else:
                r[k] = v
        if name == 'med':
            r['attrs'] = dict(over['attrs'])
    return text, valid, r


FAMILY_FORM = {'nonexthop', 'mask4', 'mask6', 'nexthop', 'aspath', 'community', 'large', 'ext', 'pathid', 'aggregator', 'originator', 'cluster', 'aigp', 'origin', 'med', 'local-preference'}


def api_spelling(plan: dict, i: int, text: str) -> str:
    """half of the flat `route ...` definitions of a plan with `family_form` reach the API in the per-family spelling
    (`announce ipv4 unicast <prefix> ...`): another schema over the same value parsers, the same verdict is expected"""
    if not plan.get('family_form') or i % 2 or not text.startswith('route ') or '{' in text or plan['cells'][i][0] not in FAMILY_FORM:
        return text
    rest = text[len('route ') :]
    return ('ipv6 unicast ' if ':' in rest.split(' ', 1)[0] else 'ipv4 unicast ') + rest


def execute(plan: dict) -> dict:
    w = make_world(plan)
    kinds = plan['kinds']
    more = [(1, 133), (2, 133), (25, 65)]
    specs = [RT.kind_speaker_spec(k) for k in kinds]
    for sp_ in specs:
        sp_['families'] = list(sp_['families']) + more
    speakers = [Speaker(w, f'p{k["idx"]}', k['peer_ip'], k['peer_as'], k['peer_ip'], RT.LOCAL, hold=180, caps=speaker_caps(sp_)) for k, sp_ in zip(kinds, specs)]
    base_conf = [RT.kind_conf(k) for k in kinds]
    for c in base_conf:
        c['families'] = list(c['families']) + more
    w.boot(config_text([{'name': 'h1'}], base_conf))
    h = w.procs.helper('h1')
    defs = [definition(tuple(c), n) for n, c in enumerate(plan['cells'])]
    violations: list[dict] = []
    probes = {'definitions': len(defs), 'valid': sum(1 for d in defs if d[1] is True), 'invalid': sum(1 for d in defs if d[1] is False), 'unjudged_validity': sum(1 for d in defs if d[1] is None), 'config_path': 0}
    conf_only = plan.get('mode') == 'conf'
    st = {'i': 0, 'phase': 'conf' if conf_only else 'api', 'acks': 0, 'verdicts': [], 'ci': 0, 'nreload': 0, 'logs0': 0}

    def sessions_ok() -> bool:
        return all(sp.established() is not None and len(sp.sessions) == 1 for sp in speakers)

    def ack_lines():
        return [(t, ln) for t, ln in h.lines if ln in ('done', 'error')]

    def error_text_since(n0: int) -> str:
        return ' | '.join(ln for _, ln in h.lines[n0:] if ln.startswith('error:') or '"error"' in ln)[:300]

    def driver() -> None:
        if violations:
            w.signal('SHUTDOWN')
            return
        now = w.loop.mono
        if st['phase'] == 'api':
            if st['i'] > 0:
                acks = ack_lines()
                if len(acks) < st['i']:
                    if now - st['t'] > 20.0:
                        violations.append(viol('C18/no-verdict', f'no reply after 20 s to: {defs[st["i"] - 1][0][:200]}', field=plan['cells'][st['i'] - 1][0]))
                        w.signal('SHUTDOWN')
                        return
                    w.after(0.2, driver)
                    return
                if len(acks) > st['i']:
                    violations.append(viol('C18/two-verdicts', f'{len(acks)} terminal replies for {st["i"]} definitions; last definition: {defs[st["i"] - 1][0][:160]}'))
                    w.signal('SHUTDOWN')
                    return
                text, valid, r = defs[st['i'] - 1]
                text = api_spelling(plan, st['i'] - 1, text)  # (what was written on the pipe)
                verdict = acks[-1][1]
                st['verdicts'].append(verdict)
                msg = error_text_since(st['l0'])
                name = plan['cells'][st['i'] - 1][0]
                if ('Unexpected error' in msg and 'Unexpected error: Notify' not in msg) or 'Traceback' in msg:
                    violations.append(viol('C18/exception-on-api', f'`{text[:160]}` was answered with an exception: {msg[:260]}', field=name, value=_val(plan['cells'][st['i'] - 1])))
                elif valid is True and verdict != 'done':
                    violations.append(viol('C18/valid-definition-refused', f'`{text[:200]}` is valid per the RFCs but the API answered {verdict}: {msg[:200]}', field=name, value=_val(plan['cells'][st['i'] - 1])))
                elif valid is False and verdict != 'error':
                    violations.append(viol('C18/invalid-definition-accepted', f'`{text[:200]}` cannot be sent as written but the API answered {verdict}', field=name, value=_val(plan['cells'][st['i'] - 1])))
                if violations:
                    w.signal('SHUTDOWN')
                    return
            if st['i'] >= len(defs):
                st['phase'] = 'settle'
                st['t'] = now
                w.after(0.5, driver)
                return
            st['l0'] = len(h.lines)
            h.emit(('peer * announce ' + api_spelling(plan, st['i'], defs[st['i']][0]) + '\n').encode())
            st['i'] += 1
            st['t'] = now
            w.after(0.15, driver)
            return
        if st['phase'] == 'settle':
            if not sessions_ok():
                errs = [l[3] for l in w.logs if l[1] == 'ERROR'][:1]
                tb = [ln.strip() for e in errs for ln in e.splitlines() if 'File "' in ln or 'Error' in ln or 'error' in ln][-3:]
                violations.append(viol('C18/session-lost-encoding-accepted-route', f'a peer task died after these definitions were accepted: {errs[0][:160] if errs else ""} {tb}', error=(errs[0][:60] if errs else '')))
                w.signal('SHUTDOWN')
                return
            if w.quiescent() and now > st['t'] + 1.0:
                judge_wire()
                st['phase'] = 'conf'
                st['ci'] = 0
            w.after(0.3, driver)
            return
        if st['phase'] == 'conf':
            # the same text through a configuration reload: same verdict, located error
            if violations or st['ci'] >= min(max(plan['nconf'], 3) if conf_only else plan['nconf'], len(defs)):
                w.signal('SHUTDOWN')
                return
            text, valid, r = defs[st['ci']]
            confs = [dict(c) for c in base_conf]
            fam_text = api_spelling(plan, st['ci'], text)
            if fam_text != text:
                # the per-family spelling has its configuration counterpart: `announce { ipv4 { unicast <prefix> ...; } }`
                afi, rest = fam_text.split(' ', 1)
                confs[0] = dict(confs[0], extra=['announce {', f'    {afi} {{', f'        {rest};', '    }', '}'])
            elif text.startswith('route '):
                confs[0] = dict(confs[0], static=[text])
            elif text.startswith('flow route '):
                confs[0] = dict(confs[0], extra=['flow {', '    route cfg ' + text[len('flow route '):], '}'])
            else:
                st['ci'] += 1  # vpls / attributes: API only
                w.after(0.01, driver)
                return
            w.set_config(config_text([{'name': 'h1'}], confs))
            st['nreload'] = len(w.reload_log)
            st['logs0'] = len(w.logs)
            w.signal('RELOAD')
            st['phase'] = 'conf-wait'
            st['t'] = now
            w.after(0.3, driver)
            return
        if st['phase'] == 'conf-wait':
            if len(w.reload_log) > st['nreload']:
                probes['config_path'] += 1
                rec = w.reload_log[-1]
                text, valid, r = defs[st['ci']]
                name = plan['cells'][st['ci']][0]
                api_verdict = None if conf_only else st['verdicts'][st['ci']]
                conf_verdict = 'done' if rec['result'] is True else 'error'
                err = rec.get('error', '')
                # a ValueError / configuration Error / Notify is the parser refusing the text; anything else reaching reload()'s catch-all is an exception
                if rec['result'] is not True and (str(rec['result']).startswith('raise') or rec.get('exc') not in (None, 'ValueError', 'Error', 'Notify')):
                    violations.append(viol('C18/exception-in-configuration', f'`{text[:160]}` in a configuration file escaped the parser as {rec.get("exc") or rec["result"]}: {err[:200]}', field=name, value=_val(plan['cells'][st['ci']])))
                elif conf_only and valid is True and conf_verdict != 'done':
                    violations.append(viol('C18/valid-definition-refused', f'`{text[:200]}` is valid per the RFCs but the configuration parser refused it: {err[:200]}', field=name, value=_val(plan['cells'][st['ci']])))
                elif conf_only and valid is False and conf_verdict != 'error':
                    violations.append(viol('C18/invalid-definition-accepted', f'`{text[:200]}` cannot be sent as written but the configuration parser accepted it', field=name, value=_val(plan['cells'][st['ci']])))
                elif not conf_only and conf_verdict != api_verdict:
                    violations.append(viol('C18/two-verdicts', f'`{text[:160]}`: the API said {api_verdict}, the configuration file parser said {conf_verdict} ({err[:160]})', field=name, value=_val(plan['cells'][st['ci']])))
                elif conf_verdict == 'error' and 'line' not in err:
                    violations.append(viol('C18/unlocated-configuration-error', f'`{text[:160]}` refused without file/line: {err[:200]}', field=name))
                st['ci'] += 1
                st['phase'] = 'conf'
            elif now > st['t'] + 15.0:
                st['ci'] += 1
                st['phase'] = 'conf'
                probes['reload_dropped'] = probes.get('reload_dropped', 0) + 1
            w.after(0.3, driver)
            return

    def judge_wire() -> None:
        for k, sp in zip(kinds, speakers):
            sess = sp.established()
            if sess.decode_errors:
                violations.append(viol('C18/undecodable-update', f'{_kd(k)}: {sess.decode_errors[0][:300]}'))
                return
            flows, vpls = wire_extras(sess)
            for (text, valid, r), verdict, cell in zip(defs, st['verdicts'], plan['cells']):
                if verdict != 'done' or r is None:
                    continue
                if r.get('kind') == 'flow':
                    from refbgp import flow as FL

                    ref = {'rd': None, 'comps': [(t, tuple(p) if t in (1, 2) else [tuple(it[:-1]) + (FL.shortest_width(it[-2]),) for it in p]) for t, p in sorted(r['comps'], key=lambda c: c[0])]}
                    key = (r['afi'], FL.canon(ref, widths=True))
                    if key not in flows:
                        violations.append(viol('C18/accepted-but-not-sent-as-written', f'{_kd(k)}: `{text[:160]}` was accepted; no FlowSpec NLRI decoding to {key[1]!r} arrived (arrived: {[kk[1] for kk in flows][:2]!r})'[:600], field=cell[0], value=_val(cell)))
                        return
                    if set(r['ecs']) != set(flows[key]):  # (exactly the actions written: none missing, none picked up from another definition)
                        violations.append(viol('C18/accepted-but-not-sent-as-written', f'{_kd(k)}: `{text[:160]}` was accepted; action communities {sorted(flows[key])}, expected {r["ecs"]}', field=cell[0], value=_val(cell)))
                        return
                    continue
                if r.get('kind') == 'vpls':
                    want = (r['ve'], r['offset'], r['size'], r['base'])
                    if want not in vpls:
                        violations.append(viol('C18/accepted-but-not-sent-as-written', f'{_kd(k)}: `{text[:160]}` was accepted; no VPLS NLRI (endpoint, offset, size, base) = {want} arrived (arrived: {sorted(vpls)[:3]})', field=cell[0], value=_val(cell)))
                        return
                    continue
                routes = r['routes'] if r.get('kind') == 'attributes' else [r]
                for r1 in routes:
                  for key, val in RT.expected_routes(r1, k):
                    d = RT.diff_entry(sess.table.routes.get(key), val)
                    if d:
                        violations.append(viol('C18/accepted-but-not-sent-as-written', f'{_kd(k)}: `{text[:160]}` was accepted; {key}: {d}', field=cell[0], value=_val(cell)))
                        return

    def wire_extras(sess):
        """FlowSpec rules (with their extended communities) and VPLS NLRI found in the UPDATEs of a session"""
        from refbgp import flow as FL

        flows: dict = {}
        vpls: set = set()
        for t, body, d in sess.updates:
            try:
                wd, attrs, nlri = R.split_update(body)
                alist = R.split_attributes(attrs)
            except R.RefError:
                continue
            ecs = set()
            for f_, c, v in alist:
                if c == R.A_EXT_COMMUNITY:
                    ecs |= {v[i : i + 8].hex() for i in range(0, len(v), 8)}
            for f_, c, v in alist:
                if c != R.A_MP_REACH or len(v) < 5:
                    continue
                afi, safi, nhl = int.from_bytes(v[:2], 'big'), v[2], v[3]
                raw = v[4 + nhl + 1 :]
                if safi == 133:
                    try:
                        for rule in FL.dec_all(raw, afi, False):
                            flows[(afi, FL.canon(rule, widths=True))] = ecs
                    except R.RefError:
                        flows[(afi, ('undecodable', raw.hex()[:60]))] = ecs
                elif (afi, safi) == (25, 65):
                    p = 0
                    while p + 2 <= len(raw):
                        ln = int.from_bytes(raw[p : p + 2], 'big')
                        one = raw[p + 2 : p + 2 + ln]
                        p += 2 + ln
                        if len(one) == 17:
                            vpls.add((int.from_bytes(one[8:10], 'big'), int.from_bytes(one[10:12], 'big'), int.from_bytes(one[12:14], 'big'), int.from_bytes(one[14:17], 'big') >> 4))
        return flows, vpls

    w.at(2.0, driver)
    w.run(until=400.0)
    boundary = probes['invalid'] + probes['valid'] > 0
    return result(w, violations[:1], probes=probes, faults={'boundary_values': probes['definitions']}, nontrivial=boundary, sample={'kinds': [_kd(k) for k in kinds], 'definitions': [d[0][:100] for d in defs[:4]]})


def _val(cell) -> str:
    cell = [x for x in cell if x != 'nested']
    return ' + '.join(str(FIELDS[cell[j]][cell[j + 1]][0])[:60] for j in range(0, len(cell), 2))


def _kd(k: dict) -> str:
    n = RT.negotiated_of(k)
    return f'{"eBGP" if n["ebgp"] else "iBGP"} local-as {k["local_as"]} asn4={n["asn4"]}'


def shrink_candidates(plan: dict):
    from exasim.runner import generic_candidates

    yield from generic_candidates(plan, ['cells'])
    if plan['nconf']:
        p = jclone(plan)
        p['nconf'] = 0
        yield p
        if plan['nconf'] > 1:
            p = jclone(plan)
            p['nconf'] = 1
            yield p
    k = plan['knobs']
    if k.get('tick') != 0.002 or k.get('drift') or k.get('wall_step'):
        p = jclone(plan)
        p['knobs'].update({'tick': 0.002, 'drift': 0.0, 'wall_step': 0.0})
        yield p
