"""C08 - malformed attributes never yield announced routes (RFC 7606)."""

from __future__ import annotations

import ipaddress
import json

from scenarios import c02
from scenarios.common import FAM_TEXT, R, Speaker, config_text, jclone, knobs, make_world, result, speaker_caps, viol

ID = 'C08'
LEVEL = 'exploration'
LEVEL_TEXT = (
    'the (attribute x corruption x session type x NLRI carrier) grid is enumerated once per tier and sampled further with seeded plans: a '
    'scripted peer (iBGP/eBGP, 2-/4-byte AS) first announces routes with a well-formed UPDATE, then sends the same kind of UPDATE with one '
    'attribute corrupted (wrong length, wrong flags, invalid value, truncated header, declared length overrunning the block, duplicate) for '
    'IPv4 NLRI and for MP_REACH NLRI, then a benign UPDATE, under segmented delivery. Oracle from a hand-written RFC 7606 table: the outcome '
    'seen on the JSON API and in the Adj-RIB-In must be at least as severe as the class of that corruption (attribute-discard < '
    'treat-as-withdraw < session reset with an UPDATE Message Error): with treat-as-withdraw every route of the UPDATE is reported as withdrawn '
    'and leaves the Adj-RIB-In, with attribute-discard exactly that attribute is gone and every other value equals the reference decoding, '
    'and in no case is a route reported or stored with a shortened or misparsed value.'
    ' The corrupted UPDATE is sent again (0-2 copies must be treated alike); some sessions negotiate extended next hop.'
    ' On 2-byte sessions a well-formed AS4_PATH may sit next to the malformed attribute.'
)
LEVEL_NOTE = 'trusts: the RFC 7606 class table in this file, the reference decoder, the JSON mapping of C02; a more conservative outcome than the RFC class is accepted'
DESIGN_REF = 'DESIGN.md section 5, C08'
RULE = (
    'plan = session kind x base UPDATE x (attribute, corruption) x carrier; non-trivial = the corrupted UPDATE reached the decoder on an '
    'established session; distinct = digests of (kind, bytes); the grid is 20 attributes-corruptions x 2 session types x 2 carriers'
)
ASSUMPTIONS = [
    'LOCAL_PREF / ORIGINATOR_ID / CLUSTER_LIST errors are attribute-discard from eBGP peers and treat-as-withdraw from iBGP peers (RFC 7606 7.5, 7.9, 7.10)',
    'a duplicate of any attribute but MP_REACH/MP_UNREACH is discarded and the first occurrence kept (RFC 7606 3.g); a duplicate MP_REACH/MP_UNREACH is a session reset',
    'flag errors are judged on the Optional and Transitive bits only (RFC 7606 3.c)',
    'a missing mandatory attribute is not in this property\'s quantifier and is not generated',
    'a declared length swallowing the start of the next attribute (overrun-mid) is only applied to attributes whose own length error is treat-as-withdraw: after an attribute-discard the shifted remainder may legitimately parse as anything',
    'an AS_PATH segment with a zero AS count is not generated: RFC 7606 7.2 calls it malformed, ExaBGP accepts it and its pinned test suite (test_update_empty_as_path_allowed, test_aspath_valid_sequence) requires that',
]

LOCAL = '10.0.0.1'
DISCARD, TAW, RESET = 1, 2, 3
SEV = {DISCARD: 'attribute-discard', TAW: 'treat-as-withdraw', RESET: 'session-reset'}

# (attribute name in c02 terms, corruption) -> class; 'ibgp-taw' = TAW from iBGP, DISCARD from eBGP
TABLE = {
    ('origin', 'len+'): TAW, ('origin', 'len0'): TAW, ('origin', 'value'): TAW, ('origin', 'flags'): TAW,
    ('as_path', 'truncated-segment'): TAW, ('as_path', 'bad-type'): TAW, ('as_path', 'overrun-count'): TAW, ('as_path', 'flags'): TAW,
    ('next_hop', 'len-'): TAW, ('next_hop', 'len+'): TAW, ('next_hop', 'len0'): TAW, ('next_hop', 'flags'): TAW,
    ('med', 'len-'): TAW, ('med', 'len+'): TAW, ('med', 'len0'): TAW, ('med', 'flags'): TAW,
    ('local_pref', 'len-'): 'ibgp-taw', ('local_pref', 'len+'): 'ibgp-taw', ('local_pref', 'len0'): 'ibgp-taw', ('local_pref', 'flags'): TAW,
    ('atomic', 'len+'): DISCARD, ('atomic', 'flags'): TAW,
    ('aggregator', 'len-'): DISCARD, ('aggregator', 'len+'): DISCARD, ('aggregator', 'len0'): DISCARD, ('aggregator', 'flags'): TAW,
    ('communities', 'len-'): TAW, ('communities', 'len+'): TAW, ('communities', 'len0'): TAW, ('communities', 'flags'): TAW,
    ('originator', 'len-'): 'ibgp-taw', ('originator', 'len+'): 'ibgp-taw', ('originator', 'len0'): 'ibgp-taw', ('originator', 'flags'): TAW,
    ('cluster', 'len-'): 'ibgp-taw', ('cluster', 'len+'): 'ibgp-taw', ('cluster', 'len0'): 'ibgp-taw', ('cluster', 'flags'): TAW,
    ('ext', 'len-'): TAW, ('ext', 'len+'): TAW, ('ext', 'len0'): TAW, ('ext', 'flags'): TAW,
    ('large', 'len-'): TAW, ('large', 'len+'): TAW, ('large', 'len0'): TAW, ('large', 'flags'): TAW,
    ('as4_path', 'truncated-segment'): DISCARD, ('as4_path', 'bad-type'): DISCARD, ('as4_path', 'flags'): TAW,
    ('as4_aggregator', 'len-'): DISCARD, ('as4_aggregator', 'len+'): DISCARD, ('as4_aggregator', 'flags'): TAW,
    ('as_path', 'other-width'): TAW, ('aggregator', 'other-width'): DISCARD,
    # RFC 7311 3.2: a malformed AIGP is treated as an unrecognised non-transitive attribute (dropped); the sessions here enable AIGP
    ('aigp', 'len-'): DISCARD, ('aigp', 'tlv-overrun'): DISCARD, ('aigp', 'flags'): TAW,
    ('*', 'overrun-last'): TAW, ('*', 'header-truncated'): TAW, ('*', 'overrun-mid'): TAW,
    ('*', 'duplicate'): 'dup',
    ('mp_reach', 'nh-len'): RESET, ('mp_reach', 'nlri-truncated'): RESET, ('mp_reach', 'short'): RESET, ('mp_reach', 'duplicate'): RESET, ('mp_reach', 'flags'): RESET,
    ('mp_unreach', 'short'): RESET, ('mp_unreach', 'nlri-truncated'): RESET, ('mp_unreach', 'duplicate'): RESET,
}  # fmt: skip
CELLS = sorted(TABLE, key=repr)
OPTIONAL_ADD = {
    'next_hop': '10.0.0.9', 'med': 77, 'local_pref': 200, 'atomic': True, 'aggregator': [65010, '10.0.0.7'], 'communities': [[65000, 1], [65000, 2]], 'originator': '1.2.3.4',
    'cluster': ['1.1.1.1', '2.2.2.2'], 'ext': ['0002fde800000001', '0003fde80000004d'], 'large': [[1, 2, 3], [4, 5, 6]], 'as4_path': [[2, [4200000001, 65010]]],
    'as4_aggregator': [4200000001, '10.0.0.7'], 'aigp': 1000,
}  # fmt: skip


def counts(tier: str):
    return (1500, 75.0) if tier == 'quick' else (40000, 900.0)


def base_plan(rng, ibgp: bool, asn4: bool, carrier: str, cell) -> dict:
    name, corr = cell
    kind = {'idx': 0, 'peer_ip': '10.0.0.2', 'peer_as': 65001 if ibgp else 65002, 'asn4': asn4, 'families': [[1, 1], [2, 1]], 'addpath': [[1, 1]] if rng.chance(0.25) else []}
    return {'kind': kind, 'carrier': carrier, 'cell': [name, corr], 'seed': rng.randint(1, 1 << 40), 'nprefix': rng.choice([1, 2, 5]), 'extra_attrs': rng.chance(0.6), 'with_withdraw': rng.chance(0.3)}


def generate(rng, tier: str, index: int) -> dict:
    cell = rng.choice(CELLS)
    asn4 = rng.chance(0.6)
    if cell[0] in ('as4_path', 'as4_aggregator'):
        asn4 = False
    p = base_plan(rng, rng.chance(0.5), asn4, rng.choice(['v4', 'v4', 'mp6', 'both']), cell)
    p['kind']['nexthop_ext'] = rng.chance(0.3)  # RFC 8950 negotiated for IPv4 unicast: the next-hop length rules of the other families stay
    p['prime'] = rng.chance(0.4) or cell[1] == 'other-width'
    if p['prime'] and rng.chance(0.8):
        p['carrier'] = 'v4'  # the decoder's one-entry attribute cache only covers UPDATEs without MP attributes
    if cell[0] in ('mp_reach',) and p['carrier'] == 'v4':
        p['carrier'] = 'mp6'
    p.update({'micro_seed': rng.randint(1, 1 << 48), 'knobs': knobs(rng), 'split_p': rng.choice([0.0, 0.3]), 'gap': rng.choice([0.02, 0.1])})
    p['repeat'] = rng.choice([0, 0, 1, 2])
    return p


def grid(tier: str):
    from exasim.choice import Rng

    plans = []
    i = 0
    for cell in CELLS:
        for ibgp in (True, False):
            for carrier in ('v4', 'mp6'):
                if cell[0] == 'mp_reach' and carrier == 'v4':
                    continue
                i += 1
                rng = Rng(7000 + i)
                p = base_plan(rng, ibgp, cell[0] not in ('as4_path', 'as4_aggregator'), carrier, cell)
                p.update({'micro_seed': 7000 + i, 'knobs': {'tick': 0.002, 'drift': 0.0, 'wall_step': 0.0}, 'split_p': 0.0, 'gap': 0.05, 'prime': cell[1] == 'other-width'})
                plans.append(p)
    return plans


# --------------------------------------------------------------------------- building the three UPDATEs


def build(plan: dict):
    """-> (valid first UPDATE, corrupted UPDATE, expectation dict)"""
    from exasim.choice import Rng

    rng = Rng(plan['seed'])
    k = plan['kind']
    ap = bool(k['addpath'])
    name, corr = plan['cell']
    v4 = [{'p': f'203.0.{i}.0/24', **({'pid': 1 + i} if ap else {})} for i in range(plan['nprefix'])] if plan['carrier'] in ('v4', 'both') else []
    v6 = [{'p': f'2001:db8:{i}::/48'} for i in range(plan['nprefix'])] if plan['carrier'] in ('mp6', 'both') else []
    path = [[2, [k['peer_as'], 65010]]] if k['peer_as'] != 65001 else [[2, [65010]]]
    attrs = [['origin', 0, {}], ['as_path', path, {}]]
    if v4:
        attrs.append(['next_hop', '10.0.0.9', {}])
    if k['peer_as'] == 65001:
        attrs.append(['local_pref', 100, {}])
    if plan['extra_attrs']:
        for n in rng.sample(['med', 'atomic', 'aggregator', 'communities', 'ext', 'large'], rng.randint(1, 4)):
            if not any(a[0] == n for a in attrs):
                attrs.append([n, OPTIONAL_ADD[n], {}])
    target = name
    if target == '*':
        pool = [a[0] for a in attrs] + ['med', 'communities']
        if corr == 'overrun-mid':
            # a wrong length in the middle of the block shifts everything after it: only attributes whose own error is
            # treat-as-withdraw make the expected outcome independent of what the shifted bytes happen to parse as
            pool = [n for n in pool if n not in ('aggregator', 'atomic', 'as4_path', 'as4_aggregator') and not (n in ('local_pref', 'originator', 'cluster') and k['peer_as'] != 65001)]
        target = rng.choice(pool)
    if target not in ('mp_reach', 'mp_unreach') and not any(a[0] == target for a in attrs):
        if target in ('originator', 'cluster') and k['peer_as'] != 65001:
            pass  # legal to receive from eBGP? RFC 4456 says ignore; it is still parsed
        if target == 'as4_aggregator' and not any(a[0] == 'aggregator' for a in attrs):
            attrs.append(['aggregator', [23456, '10.0.0.7'], {}])
        if target == 'as4_path':
            for a in attrs:
                if a[0] == 'as_path':
                    a[1] = [[2, [k['peer_as'], 23456, 65010]]] if k['peer_as'] != 65001 else [[2, [23456, 65010]]]
            attrs.append(['as4_path', [[2, [4200000001, 65010]]], {}])
        else:
            attrs.append([target, OPTIONAL_ADD[target], {}])
    if not k['asn4'] and not any(a[0] == 'as4_path' for a in attrs) and rng.fork('as4-extra').chance(0.4):
        # a 2-byte session whose UPDATE also holds a well-formed AS4_PATH: discarding some other attribute of the block may not
        # change how AS_PATH and AS4_PATH are merged (a side stream: the cells generated so far keep their draws)
        for a in attrs:
            if a[0] == 'as_path':
                a[1] = [[2, [k['peer_as'], 23456, 65010]]] if k['peer_as'] != 65001 else [[2, [23456, 65010]]]
        attrs.append(['as4_path', [[2, [4200000001, 65010]]], {}])
    u = {'attrs': attrs, 'nlri': v4}
    if v6:
        u['mpr'] = {'fam': [2, 1], 'nh': ['2001:db8::9'], 'nlri': v6}
    good = c02.enc_update(u, k)
    # the corrupted copy
    blocks = [(n, c02.enc_attr(n, v, o, k['asn4'])) for n, v, o in attrs]
    mp = []
    if v6:
        nh = ipaddress.ip_address('2001:db8::9').packed
        mpv = bytes([0, 2, 1, len(nh)]) + nh + b'\x00' + b''.join(c02.enc_one(e, 2) for e in v6)
        mp.append(('mp_reach', R.attribute(R.A_MP_REACH, mpv)))
    wd = b''
    if plan['with_withdraw']:
        wd = R.enc_prefix('198.51.100.0/24', pathid=9 if ap else None)
    detail = ''
    removed = None  # attribute expected to be absent under attribute-discard
    if target in ('mp_reach', 'mp_unreach'):
        if target == 'mp_unreach' and not any(n == 'mp_unreach' for n, _ in mp):
            mp.append(('mp_unreach', R.attribute(R.A_MP_UNREACH, bytes([0, 2, 1]) + R.enc_prefix('2001:db8:ffff::/48'))))
        idx = next(i for i, (n, _) in enumerate(mp) if n == target)
        raw = mp[idx][1]
        flags, code, val = R.split_attributes(raw)[0]
        if corr == 'nh-len':
            # lengths no family uses, and lengths that are right for another family (4: IPv4, 12: RD + IPv4, 24: RD + IPv6) and
            # wrong for IPv6 unicast, whose next hop is 16 or 32 bytes whatever else the session negotiated (RFC 8950 included)
            bad = rng.choice([0, 3, 5, 15, 17, 33, 255, 4, 12, 24, 24])
            val = val[:3] + bytes([bad]) + val[4:]
            detail = f'next hop length {bad}'
        elif corr == 'nlri-truncated':
            val = val[: len(val) - rng.randint(1, 3)]
            detail = 'NLRI truncated'
        elif corr == 'short':
            val = val[: rng.randint(0, 2 if target == 'mp_unreach' else 4)]
            detail = f'value of {len(val)} bytes'
        elif corr == 'flags':
            flags = rng.choice([0x40, 0xC0, 0x00])
            detail = f'flags 0x{flags:02x}'
        if corr == 'duplicate':
            mp.insert(idx + 1, (target, raw))
            detail = 'attribute twice'
        else:
            mp[idx] = (target, R.attribute(code, val, flags=flags & 0xEF))
    else:
        idx = next(i for i, (n, _) in enumerate(blocks) if n == target)
        raw = blocks[idx][1]
        flags, code, val = R.split_attributes(raw)[0]
        removed = target
        if corr == 'len-':
            val = val[: len(val) - rng.choice([1, 1, 2, 3])] if len(val) > 1 else b''
            detail = f'length {len(val)}'
        elif corr == 'len+':
            val = val + bytes(rng.randint(0, 255) for _ in range(rng.choice([1, 1, 2, 3, 5])))
            detail = f'length {len(val)}'
        elif corr == 'len0':
            val = b''
            detail = 'length 0'
        elif corr == 'value':
            val = bytes([rng.choice([3, 4, 127, 255])])
            detail = f'value {val[0]}'
        elif corr == 'flags':
            flip = rng.choice([0x80, 0x40, 0xC0])
            flags ^= flip
            detail = f'flags 0x{flags:02x}'
        elif corr == 'truncated-segment':
            val = val[: len(val) - rng.choice([1, 2, 3])] if len(val) > 3 else bytes([2])
            detail = 'last segment cut'
        elif corr == 'zero-count':
            val = bytes([2, 0]) + val
            detail = 'segment with zero AS'
        elif corr == 'bad-type':
            val = bytes([rng.choice([0, 5, 9, 255])]) + val[1:] if val else bytes([9, 1, 0, 1])
            detail = f'segment type {val[0]}'
        elif corr == 'other-width':
            # the encoding of the other AS-number width: well-formed there, malformed here
            if target == 'as_path':
                asns = [k['peer_as'] if k['peer_as'] <= 65535 else 65002, 65010, 65011]
                val = R.enc_as_path([(2, asns if not k['asn4'] else asns[:2])], not k['asn4'])
            else:
                val = (65010).to_bytes(2 if k['asn4'] else 4, 'big') + bytes([10, 0, 0, 7])
            detail = f'{"2" if k["asn4"] else "4"}-byte AS encoding on a {"4" if k["asn4"] else "2"}-byte session'
        elif corr == 'tlv-overrun':
            # a well-formed AIGP TLV, then a second TLV whose declared length runs past the end of the attribute
            val = val + bytes([rng.choice([1, 2, 9]), 0, rng.choice([12, 20, 200])]) + bytes(rng.randint(0, 255) for _ in range(rng.choice([0, 3, 8])))
            detail = 'second TLV overruns the attribute'
        elif corr == 'overrun-count':
            val = val[:1] + bytes([val[1] + rng.choice([1, 2, 50])]) + val[2:] if len(val) > 1 else bytes([2, 3, 0, 1])
            detail = 'segment count beyond the attribute'
        if corr in ('overrun-last', 'overrun-mid', 'header-truncated', 'duplicate'):
            if corr == 'duplicate':
                other = OPTIONAL_ADD.get(target)
                dup = raw
                if target == 'med':
                    dup = c02.enc_attr('med', 999, {}, k['asn4'])
                elif target == 'communities':
                    dup = c02.enc_attr('communities', [[65000, 999]], {}, k['asn4'])
                blocks.insert(idx + 1, (target + '#2', dup))
                removed = None
                detail = 'attribute twice (second differs)' if dup != raw else 'attribute twice'
            elif corr == 'overrun-last':
                blocks.append(blocks.pop(idx))
                extra = rng.choice([1, 2, 4, 200])
                if len(val) + extra > 255:
                    bad = bytes([flags | 0x10, code]) + (len(val) + extra).to_bytes(2, 'big') + val
                else:
                    bad = bytes([flags & 0xEF, code, len(val) + extra]) + val
                blocks[-1] = (target, bad)
                detail = f'declared length {len(val) + extra} with {len(val)} bytes left'
            elif corr == 'overrun-mid':
                # the declared length swallows the start of the next attribute
                if idx == len(blocks) - 1:
                    blocks.insert(0, blocks.pop(idx))
                    idx = 0
                extra = rng.choice([1, 2, 3])
                bad = bytes([flags & 0xEF, code, (len(val) + extra) & 255]) + val
                blocks[idx] = (target, bad)
                detail = f'declared length {len(val) + extra} swallowing {extra} bytes of the next attribute'
            else:
                blocks.append(blocks.pop(idx))
                cut = rng.choice([1, 2, 3, 3])
                if cut == 3:
                    # an extended-length header (4 bytes) of which only three are there, the high length byte being 0
                    blocks[-1] = (target, bytes([(flags | 0x10), code, 0]))
                else:
                    blocks[-1] = (target, raw[:cut])
                detail = f'{cut} byte(s) of {"an extended-length " if cut == 3 else ""}attribute header at the end of the block'
        else:
            blocks[idx] = (target, R.attribute(code, val, flags=flags & 0xEF))
    ordered = [b for _, b in blocks] + [b for _, b in mp]
    if corr in ('overrun-last', 'header-truncated', 'overrun-mid') and target not in ('mp_reach', 'mp_unreach'):
        # MP attributes first (RFC 7606 5.1) so that the routes of the UPDATE can still be told
        ordered = [b for _, b in mp] + [b for _, b in blocks]
    bad_msg = R.build_update(withdrawn=wd, attrs=b''.join(ordered), nlri=b''.join(c02.enc_one(e, 1) for e in v4))
    cls = TABLE[(name, corr)]
    if cls == 'ibgp-taw':
        cls = TAW if k['peer_as'] == 65001 else DISCARD
    if cls == 'dup':
        cls = DISCARD
    keys = [(1, 1, e.get('pid'), e['p'], None) for e in v4] + [(2, 1, None, str(ipaddress.ip_network(e['p'])), None) for e in v6]
    return good, bad_msg, {'class': cls, 'target': target, 'removed': removed, 'keys': keys, 'detail': f'{target} {corr}: {detail}', 'withdrawn': [(1, 1, 9 if ap else None, '198.51.100.0/24', None)] if wd else []}


# --------------------------------------------------------------------------- execution


def execute(plan: dict) -> dict:
    w = make_world(plan)
    k = plan['kind']
    fams = [tuple(f) for f in k['families']]
    ap = [tuple(f) for f in k['addpath']]
    conf = {
        'peer_ip': k['peer_ip'], 'local_ip': LOCAL, 'local_as': 65001, 'peer_as': k['peer_as'], 'router_id': LOCAL, 'hold': 180, 'families': fams, 'adj-rib-in': True,
        'caps': {'asn4': k['asn4'], 'add-path': 'receive' if ap else 'disable', 'aigp': True}, 'addpath_families': ap or None, 'api': {'processes': ['h1'], 'receive': ['parsed', 'update', 'notification']},
    }  # fmt: skip
    spec = {'asn': k['peer_as'], 'families': fams, 'asn4': k['asn4']}
    if ap:
        spec['addpath'] = [(a, s, 2) for a, s in ap]
    if k.get('nexthop_ext'):
        conf['caps']['nexthop'] = True
        conf['nexthop'] = ['ipv4 unicast ipv6']
        spec['nexthop'] = [(1, 1, 2)]
    sp = Speaker(w, 'p0', k['peer_ip'], k['peer_as'], k['peer_ip'], LOCAL, hold=180, caps=speaker_caps(spec))
    ctx = R.Ctx(asn4=k['asn4'], addpath={f: True for f in ap})
    confs = [conf]
    sp2 = None
    if plan.get('prime'):
        # a second peer of the other AS-number width receives the very same bytes just before
        conf2 = dict(conf, peer_ip='10.0.0.3', caps=dict(conf['caps'], asn4=not k['asn4']), api={'processes': ['h1'], 'receive': ['parsed', 'update']})
        spec2 = dict(spec, asn4=not k['asn4'])
        sp2 = Speaker(w, 'p1', '10.0.0.3', k['peer_as'], '10.0.0.3', LOCAL, hold=180, caps=speaker_caps(spec2))
        confs.append(conf2)
    w.boot(config_text([{'name': 'h1'}], confs))
    h = w.procs.helper('h1')
    w.net.split_p = plan.get('split_p', 0.0)
    good, bad, exp = build(plan)
    benign = R.build_update(attrs=c02.enc_attr('origin', 0, {}, k['asn4']) + c02.enc_attr('as_path', [[2, [k['peer_as']]]] if k['peer_as'] != 65001 else [], {}, k['asn4']) + c02.enc_attr('next_hop', '10.0.0.9', {}, k['asn4']) + (c02.enc_attr('local_pref', 100, {}, k['asn4']) if k['peer_as'] == 65001 else b''), nlri=R.enc_prefix('198.18.0.1/32', pathid=5 if ap else None))  # fmt: skip
    stage = {'sent_bad_at': None}
    snap: dict = {}

    def go(sess) -> None:
        if sess.index != 0:
            return
        g = plan['gap']
        w.after(0.2, lambda: sess.send(good))
        if exp['withdrawn']:
            w.after(0.2 + g / 2, lambda: sess.send(R.build_update(attrs=benign[23:23] or b'', nlri=b'')) if False else None)

        def send_bad() -> None:
            if sess.state != 'closed':
                stage['sent_bad_at'] = w.loop.mono
                snap['rib_before'] = rib_keys()
                other = sp2.established() if sp2 is not None else None

                def now_bad() -> None:
                    if sess.state != 'closed':
                        sess.send(bad)
                        # the very same corrupted bytes again (a peer re-sending; the decoder's attribute cache has seen them once)
                        for j in range(plan.get('repeat', 0)):
                            w.after(g * (j + 1) / (plan['repeat'] + 1), lambda: sess.send(bad) if sess.state != 'closed' else None)
                        w.after(g, lambda: sess.send(benign) if sess.state != 'closed' else None)

                if other is not None:
                    other.send(bad)
                    w.after(0.004, now_bad)
                else:
                    now_bad()

        w.after(0.2 + g, send_bad)

    def rib_keys() -> dict:
        peer = w.peer_for(k['peer_ip'])
        out = {}
        if peer is not None and peer.neighbor.rib is not None:
            for route in peer.neighbor.rib.incoming.cached_routes():
                fam = (int(route.nlri.afi), int(route.nlri.safi))
                e = json.loads(str(route.nlri.json()), object_pairs_hook=c02._pairs)
                attrs = json.loads('{' + route.attributes.json() + '}', object_pairs_hook=c02._pairs)
                out[c02.canon_json_nlri(fam, e)[:5]] = c02.canon_json_attrs(attrs)
        return out

    sp.on_established.append(go)
    violations: list[dict] = []
    probes: dict = {}
    w.at_end.append(lambda: judge(w, plan, sp, ctx, h, good, bad, exp, stage, rib_keys, violations, probes))
    w.run(until=3.5 + 3 * plan['gap'])
    probes['cell:' + plan['cell'][0] + '/' + plan['cell'][1]] = 1
    return result(w, violations[:1], probes=probes, faults={'corrupted_attribute': 1, 'segmented_delivery': 1 if plan.get('split_p') else 0}, nontrivial=stage['sent_bad_at'] is not None,
                  sample={'cell': plan['cell'], 'kind': _kd(k), 'carrier': plan['carrier'], 'what': exp['detail']})  # fmt: skip


def judge(w, plan, sp, ctx, h, good, bad, exp, stage, rib_keys, violations, probes) -> None:
    k = plan['kind']
    if stage['sent_bad_at'] is None:
        return
    sess = sp.sessions[0]
    lines = [ln for _, ln in h.lines if '"type": "update"' in ln and f'"peer": "{k["peer_ip"]}"' in ln]
    what = f'{exp["detail"]} ({_kd(k)}, {plan["carrier"]} NLRI)'
    cell = '/'.join(plan['cell'])
    want_good = c02.expected_event(good[19:], ctx, keep_aigp=True)
    if not lines:
        raise RuntimeError('the well-formed first UPDATE was not reported')
    try:
        first = c02.parse_event(lines[0])
    except (ValueError, KeyError, c02.Dup) as exc:
        raise RuntimeError(f'first event unparseable: {exc}') from None
    if c02.first_diff(first, want_good):
        raise RuntimeError(f'the well-formed first UPDATE is not reported as the reference decodes it: {c02.first_diff(first, want_good)}')
    reset = sess.state == 'closed' and sess.notification_rx is not None
    if sess.state == 'closed' and sess.notification_rx is None and sess.closed_by != 'speaker':
        violations.append(viol('C08/closed-without-notification', f'{what}: the session ended without a NOTIFICATION', cell=cell))
        return
    rib = rib_keys()
    if reset:
        code, sub = sess.notification_rx[0], sess.notification_rx[1]
        probes[f'outcome:reset-{code}/{sub}'] = 1
        if code != 3:
            violations.append(viol('C08/reset-with-wrong-code', f'{what}: session reset with NOTIFICATION {code}/{sub}, not an UPDATE Message Error', cell=cell, code=f'{code}/{sub}'))
        # an event for the corrupted UPDATE must not announce its routes
        if len(lines) > 1:
            ev = _safe_parse(lines[1])
            if ev and any(n[:5] in exp['keys'] for n, _ in ev.get('announce', [])):
                violations.append(viol('C08/malformed-update-announced', f'{what}: the session was reset but the routes were first announced on the API', cell=cell, outcome='reset'))
        return
    # session alive: the corrupted UPDATE must have produced exactly one event, then the benign one
    if len(lines) < 2:
        probes['outcome:silently-dropped'] = 1
        # nothing reported: acceptable only if nothing is stored either and the old routes are gone (withdrawn without report is not "reported as withdrawn")
        violations.append(viol('C08/not-reported', f'{what}: the session stayed up but the UPDATE produced no API event (its routes are not reported as withdrawn)', cell=cell))
        return
    ev = _safe_parse(lines[1])
    if ev is None:
        violations.append(viol('C08/event-unparseable', f'{what}: {lines[1][:300]}', cell=cell))
        return
    for j in range(plan.get('repeat', 0)):
        # the same bytes sent again must get the same treatment (no outcome may depend on having been seen before)
        if len(lines) < 2 + j + 1:
            violations.append(viol('C08/not-reported', f'{what}: copy #{j + 2} of the same UPDATE produced no API event', cell=cell))
            return
        again = _safe_parse(lines[2 + j])
        if again is None or (sorted(map(repr, again.get('announce', []))), sorted(map(repr, again.get('withdraw', []))), again.get('attrs')) != (sorted(map(repr, ev.get('announce', []))), sorted(map(repr, ev.get('withdraw', []))), ev.get('attrs')):
            probes['repeat_differs'] = 1
            ann2 = [n[:5] for n, _ in (again or {}).get('announce', [])]
            if any(key in ann2 for key in exp['keys']) and exp['class'] != DISCARD:
                violations.append(viol('C08/malformed-update-announced', f'{what}: copy #{j + 2} of the same corrupted UPDATE was announced ({str(lines[2 + j])[:200]}) although RFC 7606 asks for {SEV[exp["class"]]}', cell=cell, outcome='announced', required=SEV[exp['class']]))
            else:
                violations.append(viol('C08/outcome-depends-on-repetition', f'{what}: copy #{j + 2} of the same UPDATE is reported differently from the first: {str(lines[2 + j])[:200]} vs {str(lines[1])[:200]}', cell=cell))
            return
    announced = [n[:5] for n, _ in ev.get('announce', [])]
    withdrawn = [n[:5] for n in ev.get('withdraw', [])]
    ann_keys = [key for key in exp['keys'] if key in announced]
    stored = [key for key in exp['keys'] if key in rib]
    cls = exp['class']
    if not ann_keys:
        # treat-as-withdraw outcome: every route of the UPDATE reported as withdrawn, none stored
        probes['outcome:treat-as-withdraw'] = 1
        missing = [key for key in exp['keys'] if key not in withdrawn]
        if missing:
            violations.append(viol('C08/not-reported', f'{what}: routes {missing[:2]} are neither announced nor reported as withdrawn', cell=cell))
            return
        if stored:
            violations.append(viol('C08/withdrawn-route-still-stored', f'{what}: reported as withdrawn but {stored[:2]} is still in the Adj-RIB-In', cell=cell))
            return
        if cls == RESET:
            violations.append(viol('C08/outcome-too-lenient', f'{what}: RFC 7606 asks for a session reset (the NLRI cannot be trusted), the UPDATE was treated as withdraw', cell=cell, outcome='treat-as-withdraw', required='session-reset'))
        return
    # routes announced: only attribute-discard may lead here
    probes['outcome:announced'] = 1
    if cls != DISCARD:
        violations.append(viol('C08/malformed-update-announced', f'{what}: RFC 7606 asks for {SEV[cls]} but the routes {ann_keys[:2]} were announced', cell=cell, outcome='announced', required=SEV[cls]))
        return
    # discard: exactly that attribute gone, everything else as the reference decodes the *well-formed* UPDATE
    want = jclone_attrs(want_good['attrs'])
    gone = {'origin': 'origin', 'med': 'med', 'local_pref': 'local_pref', 'atomic': 'atomic', 'aggregator': 'aggregator', 'communities': 'communities', 'originator': 'originator_id',
            'cluster': 'cluster_list', 'ext': 'ext_communities', 'large': 'large_communities', 'as4_aggregator': None, 'as4_path': None, 'aigp': 'aigp'}.get(exp['removed']) if exp['removed'] else None  # fmt: skip
    if exp['removed'] == 'as4_path':
        # discarding AS4_PATH leaves the AS_PATH as received (with AS_TRANS)
        d = R.decode_attributes(_attrs_without(bad, [R.A_AS4_PATH]), ctx)
        want = c02.canon_ref_attrs(d)
    elif exp['removed'] == 'as4_aggregator':
        d = R.decode_attributes(_attrs_without(bad, [R.A_AS4_AGGREGATOR]), ctx)
        want = c02.canon_ref_attrs(d)
    elif gone:
        want.pop(gone, None)
    got = ev['attrs']
    for key in sorted(set(got) | set(want)):
        if got.get(key) != want.get(key):
            violations.append(viol('C08/misparsed-attribute-kept', f'{what}: routes announced with {key} = {str(got.get(key))[:120]}, expected {str(want.get(key))[:120]} (attribute-discard drops only the malformed attribute)', cell=cell, field=key))
            return
    if len(ann_keys) != len(exp['keys']):
        violations.append(viol('C08/not-reported', f'{what}: only {len(ann_keys)} of {len(exp["keys"])} routes announced', cell=cell))
        return
    for key in exp['keys']:
        if key in rib and rib[key] != {kk: vv for kk, vv in want.items()}:
            bad_field = next((f for f in sorted(set(rib[key]) | set(want)) if rib[key].get(f) != want.get(f)), '?')
            violations.append(viol('C08/misparsed-attribute-kept', f'{what}: Adj-RIB-In holds {key} with {bad_field} = {str(rib[key].get(bad_field))[:120]}, expected {str(want.get(bad_field))[:120]}', cell=cell, field=bad_field))
            return
    for key in exp['withdrawn']:
        if key not in withdrawn:
            violations.append(viol('C08/not-reported', f'{what}: the withdrawn route {key} of the same UPDATE was not reported', cell=cell))
            return
    # alive after: the benign UPDATE is reported
    if not any('"198.18.0.1/32"' in ln for ln in lines[2 + plan.get('repeat', 0):]):
        violations.append(viol('C08/wedged', f'{what}: the benign UPDATE sent afterwards was not reported', cell=cell))


def jclone_attrs(a: dict) -> dict:
    return dict(a)


def _attrs_without(msg: bytes, codes: list[int]) -> bytes:
    wd, attrs, nlri = R.split_update(msg[19:])
    out = b''
    for f, c, v in R.split_attributes(attrs):
        if c in codes or c in (R.A_MP_REACH, R.A_MP_UNREACH):
            continue
        out += R.attribute(c, v, flags=f & 0xEF)
    return out


def _safe_parse(line: str):
    try:
        return c02.parse_event(line)
    except (ValueError, KeyError, TypeError, c02.Dup):
        return None


def _kd(k: dict) -> str:
    return f'{"iBGP" if k["peer_as"] == 65001 else "eBGP"} asn4={k["asn4"]}{" add-path" if k["addpath"] else ""}'


def shrink_candidates(plan: dict):
    for key, val in (('repeat', 0), ('extra_attrs', False), ('with_withdraw', False), ('nprefix', 1), ('split_p', 0.0)):
        if plan.get(key) != val:
            p = jclone(plan)
            p[key] = val
            yield p
    if plan['carrier'] == 'both':
        for c in ('v4', 'mp6'):
            p = jclone(plan)
            p['carrier'] = c
            yield p
    if plan['kind']['addpath']:
        p = jclone(plan)
        p['kind']['addpath'] = []
        yield p
    kn = plan['knobs']
    if kn.get('tick') != 0.002 or kn.get('drift') or kn.get('wall_step'):
        p = jclone(plan)
        p['knobs'].update({'tick': 0.002, 'drift': 0.0, 'wall_step': 0.0})
        yield p
