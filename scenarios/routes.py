"""Structured routes: generation, API/configuration text, and the canonical values a peer of a
given session kind must decode (used by C01, C09, C18)."""

from __future__ import annotations

import ipaddress
import struct

from scenarios.common import R

LOCAL = '10.0.0.1'
WELL_KNOWN = {'no-export': (0xFFFF, 0xFF01), 'no-advertise': (0xFFFF, 0xFF02), 'no-export-subconfed': (0xFFFF, 0xFF03), 'blackhole': (0xFFFF, 666)}
ORIGINS = {'igp': 0, 'egp': 1, 'incomplete': 2}
FAMILY = {'v4u': (1, 1), 'v6u': (2, 1), 'v4l': (1, 4), 'v4vpn': (1, 128), 'v6l': (2, 4)}


def gen_kind(rng, idx: int) -> dict:
    ibgp = rng.chance(0.4)
    local_as = rng.choice([65001, 65001, 4200000001])
    k = {
        'idx': idx, 'peer_ip': f'10.0.0.{idx + 2}', 'local_as': local_as, 'peer_as': local_as if ibgp else [65002, 65003, 4200000002][idx % 3],
        'peer_asn4': rng.chance(0.7), 'addpath': rng.chance(0.4), 'extmsg': rng.chance(0.3), 'nexthop_ext': False,
    }  # fmt: skip
    # asymmetric ADD-PATH (RFC 7911: we send path ids iff we advertise send and the peer advertises receive)
    if rng.chance(0.35):
        k['ap_local'] = rng.choice(['send', 'receive', 'send/receive'])
        k['ap_peer'] = rng.choice([1, 2, 3])
        k['addpath'] = 'send' in k['ap_local'] and bool(k['ap_peer'] & 1)
    return k


def kind_conf(k: dict, api: bool = True, static: list[str] | None = None) -> dict:
    fams = [(1, 1), (2, 1), (1, 4), (1, 128)]
    n = {
        'peer_ip': k['peer_ip'], 'local_ip': k.get('local_ip', LOCAL), 'local_as': k['local_as'], 'peer_as': k['peer_as'], 'router_id': LOCAL, 'hold': 180,
        'families': fams, 'adj-rib-out': False, 'group-updates': k.get('group_updates', True),
        'caps': {'asn4': True, 'extended-message': k['extmsg'], 'add-path': k.get('ap_local', 'send/receive' if k['addpath'] else 'disable'), 'route-refresh': True,
                 'nexthop': bool(k.get('nexthop_ext')), 'graceful-restart': 'disable', 'multi-session': False, 'operational': False, 'aigp': True},
        'addpath_families': [(1, 1), (1, 4), (1, 128), (2, 1)] if (k['addpath'] or k.get('ap_local')) else None,
    }  # fmt: skip
    if k.get('nexthop_ext'):
        n['nexthop'] = ['ipv4 unicast ipv6']
    if k.get('nexthop_ext_l'):
        # RFC 8950 for labelled IPv4: one family then carries next hops of two lengths
        n['caps']['nexthop'] = True
        n['nexthop'] = n.get('nexthop', []) + ['ipv4 nlri-mpls ipv6']
    if api:
        n['api'] = {'processes': ['h1']}
    if static:
        n['static'] = static
    return n


def kind_speaker_spec(k: dict) -> dict:
    drops = {FAMILY[f] for f in k.get('peer_drops', [])}  # families exabgp is configured for and the peer does not offer
    spec = {'asn': k['peer_as'], 'families': [f for f in [(1, 1), (2, 1), (1, 4), (1, 128)] if f not in drops], 'asn4': k['peer_asn4'] or k['peer_as'] > 65535, 'extmsg': k['extmsg']}
    if k['addpath'] or k.get('ap_peer'):
        m = k.get('ap_peer', 3)
        spec['addpath'] = [(a, s_, m) for a, s_ in [(1, 1), (1, 4), (1, 128), (2, 1)] if (a, s_) not in drops]
    if k.get('nexthop_ext'):
        spec['nexthop'] = [(1, 1, 2)]
    if k.get('nexthop_ext_l'):
        spec['nexthop'] = spec.get('nexthop', []) + [(1, 4, 2)]
    return spec


def negotiated_of(k: dict) -> dict:
    asn4 = k['peer_asn4'] or k['peer_as'] > 65535
    return {'asn4': asn4, 'addpath': k['addpath'], 'ebgp': k['local_as'] != k['peer_as'], 'max': 65535 if k['extmsg'] else 4096}


# ------------------------------------------------------------------ generation


def gen_attrs(rng, rich: float = 0.5) -> dict:
    a: dict = {}
    if rng.chance(rich * 0.6):
        a['origin'] = rng.choice(list(ORIGINS))
    if rng.chance(rich):
        segs = []
        for _ in range(rng.randint(1, 2)):
            t = rng.choice([2, 2, 2, 1])
            segs.append([t, [rng.choice([64512, 65010, 65535, 65536, 4200000005, 1, 23456]) for _ in range(rng.randint(1, 4))]])
        # the text grammar closes the path at the first segment not followed by another one: keep sequence-then-set order simple
        a['aspath'] = segs
    if rng.chance(rich):
        a['med'] = rng.choice([0, 1, 100, 4294967295, rng.randint(0, 1 << 32 - 1)])
    if rng.chance(rich):
        a['lp'] = rng.choice([0, 100, 200, 4294967295])
    if rng.chance(rich * 0.3):
        a['atomic'] = True
    if rng.chance(rich * 0.4):
        a['aggregator'] = [rng.choice([65010, 4200000009]), rng.choice(['10.0.0.7', '192.0.2.1'])]
    if rng.chance(rich):
        a['comm'] = [rng.choice(['no-export', 'no-advertise', 'blackhole', [65000, 1], [0, 0], [65535, 65535], [rng.randint(0, 65535), rng.randint(0, 65535)]]) for _ in range(rng.randint(1, 4))]
    if rng.chance(rich * 0.5):
        a['ext'] = rng.sample(['target:65000:1', 'origin:65000:2', 'target:1.2.3.4:5', 'target:4200000000:5', '0x0002fde800000007'], rng.randint(1, 3))
        f = rng.fork('ext-boundary')  # (a side stream: the draws of the plans generated so far stay what they were)
        if f.chance(0.4):
            # the last 2-octet AS and the first 4-octet one (RFC 4360 type 0x00 with a 4-octet value, RFC 5668 type 0x02 with a 2-octet one)
            a['ext'][f.randint(0, len(a['ext']) - 1)] = f.choice(['target:65535:100000', 'origin:65535:7', 'target:65536:5', 'origin:65536:65535', 'target:0:4294967295', 'target:65535:0'])
    if rng.chance(rich * 0.5):
        a['large'] = [[rng.choice([65000, 4200000000, 0]), rng.randint(0, 4294967295), rng.choice([0, 1, 4294967295])] for _ in range(rng.randint(1, 3))]
    if rng.chance(rich * 0.3):
        a['originator'] = rng.choice(['1.2.3.4', '10.0.0.99'])
    if rng.chance(rich * 0.3):
        a['cluster'] = [rng.choice(['1.1.1.1', '2.2.2.2', '10.9.9.9']) for _ in range(rng.randint(1, 3))]
    if rng.chance(rich * 0.2):
        a['aigp'] = rng.choice([0, 77, (1 << 64) - 1])
    if rng.chance(rich * 0.3):
        a['generic'] = [rng.choice([99, 200, 250]), rng.choice([0xC0, 0x80, 0xE0]), rng.bytes(rng.randint(1, 12)).hex()]
    return a


def gen_route(rng, fams: list[str], addpath: bool, allow_split: bool = True) -> dict:
    fam = rng.choice(fams)
    v6 = fam in ('v6u', 'v6l')
    if v6:
        plen = rng.choice([0, 1, 32, 48, 64, 127, 128])
        base = rng.choice(['2001:db8::', '2001:db8:1:2::', '2a00:1450:4009:80b::200e', 'fe80::1'])
        net = ipaddress.ip_network(f'{base}/{plen}', strict=False)
    else:
        plen = rng.choice([0, 1, 8, 16, 23, 24, 25, 31, 32])
        base = rng.choice(['198.51.100.0', '203.0.113.128', '10.1.2.3', '172.16.5.0', '192.0.2.255', '0.0.0.0'])
        net = ipaddress.ip_network(f'{base}/{plen}', strict=False)
    r = {'fam': fam, 'p': str(net), 'nh': ('2001:db8::1' if v6 else rng.choice(['10.0.0.9', 'self', '10.0.0.77', '192.0.2.254'])), 'attrs': gen_attrs(rng)}
    if rng.chance(0.5):
        r['pid'] = rng.choice([0, 1, 2, 4294967295])
    if fam in ('v4l', 'v4vpn', 'v6l'):
        r['labels'] = [rng.choice([0, 3, 16, 100, 1048575]) for _ in range(rng.randint(1, 2))]
    if fam == 'v4vpn':
        r['rd'] = rng.choice(['65000:1', '1.2.3.4:5', '4200000000:1', '0:0', '65535:4294967295'])
    if allow_split and fam == 'v4u' and plen in (23, 24) and rng.chance(0.15):
        r['split'] = plen + rng.randint(1, 2)
    return r


# ------------------------------------------------------------------ text


def attrs_text(a: dict) -> str:
    out = []
    if 'origin' in a:
        out.append(f'origin {a["origin"]}')
    if 'aspath' in a:
        parts = []
        for t, asns in a['aspath']:
            o, c = ('[', ']') if t == 2 else ('(', ')')
            parts.append(f'{o} ' + ' '.join(str(x) for x in asns) + f' {c}')
        out.append('as-path ' + ' '.join(parts))
    if 'med' in a:
        out.append(f'med {a["med"]}')
    if 'lp' in a:
        out.append(f'local-preference {a["lp"]}')
    if a.get('atomic'):
        out.append('atomic-aggregate')
    if 'aggregator' in a:
        out.append(f'aggregator ( {a["aggregator"][0]}:{a["aggregator"][1]} )')
    if 'comm' in a:
        out.append('community [ ' + ' '.join(c if isinstance(c, str) else f'{c[0]}:{c[1]}' for c in a['comm']) + ' ]')
    if 'ext' in a:
        out.append('extended-community [ ' + ' '.join(a['ext']) + ' ]')
    if 'large' in a:
        out.append('large-community [ ' + ' '.join(f'{x}:{y}:{z}' for x, y, z in a['large']) + ' ]')
    if 'originator' in a:
        out.append(f'originator-id {a["originator"]}')
    if 'cluster' in a:
        out.append('cluster-list [ ' + ' '.join(a['cluster']) + ' ]')
    if 'aigp' in a:
        out.append(f'aigp {a["aigp"]}')
    if 'generic' in a:
        code, flags, hx = a['generic']
        out.append(f'attribute [ 0x{code:02x} 0x{flags:02x} 0x{hx} ]')
    return ' '.join(out)


def route_text(r: dict) -> str:
    t = f'route {r["p"]} next-hop {r["nh"]}'
    if r.get('pid') is not None:
        t += f' path-information {r["pid"]}'
    if r.get('labels'):
        t += ' label [ ' + ' '.join(str(x) for x in r['labels']) + ' ]'
    if r.get('rd'):
        t += f' rd {r["rd"]}'
    at = attrs_text(r.get('attrs', {}))
    if at:
        t += ' ' + at
    if r.get('split'):
        t += f' split /{r["split"]}'
    return t


# ------------------------------------------------------------------ expectation


def ext_hex(text: str) -> str:
    if text.startswith('0x'):
        return text[2:].lower()
    kind, a, b = text.split(':')
    sub = {'target': 2, 'origin': 3}[kind]
    if '.' in a:
        return (bytes([1, sub]) + ipaddress.IPv4Address(a).packed + struct.pack('!H', int(b))).hex()
    if int(a) > 65535:
        return (bytes([2, sub]) + struct.pack('!LH', int(a), int(b))).hex()
    return (bytes([0, sub]) + struct.pack('!HL', int(a), int(b))).hex()


def rd_canon(text: str) -> str:
    return text


def expected_routes(r: dict, k: dict) -> list[tuple[tuple, dict]]:
    """[(key, {'next_hop', 'labels', 'attrs'})] a peer of kind k must hold after this announce"""
    neg = negotiated_of(k)
    afi, safi = FAMILY[r['fam']]
    if r['fam'] in k.get('peer_drops', []):
        return []  # the family was not negotiated: nothing of it may be sent, announce or withdraw
    prefixes = [r['p']]
    if r.get('split'):
        net = ipaddress.ip_network(r['p'])
        prefixes = [str(n) for n in net.subnets(new_prefix=r['split'])]
    a = r.get('attrs', {})
    exp: dict = {'origin': ORIGINS[a.get('origin', 'igp')]}
    if 'aspath' in a:
        exp['as_path'] = [(t, tuple(x)) for t, x in a['aspath']]
    else:
        exp['as_path'] = [(2, (k['local_as'],))] if neg['ebgp'] else []
    exp['as_path'] = norm_path(exp['as_path'])
    if 'med' in a:
        exp['med'] = a['med']
    if not neg['ebgp']:
        exp['local_pref'] = a.get('lp', 100)
    if a.get('atomic'):
        exp['atomic'] = True
    if 'aggregator' in a:
        exp['aggregator'] = (a['aggregator'][0], a['aggregator'][1])
    if 'comm' in a:
        exp['communities'] = sorted(WELL_KNOWN[c] if isinstance(c, str) else (c[0], c[1]) for c in a['comm'])
    if 'ext' in a:
        exp['ext_communities'] = sorted(ext_hex(x) for x in a['ext'])
    if 'large' in a:
        exp['large_communities'] = sorted(tuple(x) for x in a['large'])
    if 'originator' in a:
        exp['originator_id'] = a['originator']
    if 'cluster' in a:
        exp['cluster_list'] = list(a['cluster'])
    if 'aigp' in a:
        exp['aigp'] = a['aigp']
    if 'generic' in a:
        code, flags, hx = a['generic']
        exp['unknown'] = [(flags & 0xE0, code, hx.lower())]
    nh = k.get('local_ip', LOCAL) if r['nh'] == 'self' else r['nh']
    out = []
    for p in prefixes:
        pid = None
        if neg['addpath']:
            pid = r.get('pid') or 0
        key = (afi, safi, pid, p, r.get('rd'))
        out.append((key, {'next_hop': [nh], 'labels': tuple(r['labels']) if r.get('labels') else None, 'attrs': exp}))
    return out


def norm_path(path) -> list:
    """adjacent AS_SEQUENCE segments mean the same as one longer sequence: compare paths modulo that"""
    joined: list = []
    for t, x in path:
        x = tuple(x)
        if joined and t == 2 and joined[-1][0] == 2:
            joined[-1] = (2, joined[-1][1] + x)
        else:
            joined.append((t, x))
    return joined


def canonical_seen(entry: dict) -> dict:
    """make a PeerTable entry comparable with an expectation"""
    at = dict(entry['attrs'])
    at['as_path'] = norm_path(at.get('as_path', []))
    if 'unknown' in at:
        at['unknown'] = [tuple(u) for u in at['unknown']]
    return {'next_hop': list(entry['next_hop'])[:1], 'labels': entry['labels'], 'attrs': at}


def diff_entry(seen: dict | None, want: dict) -> str | None:
    if seen is None:
        return 'route missing at the peer'
    s = canonical_seen(seen)
    if s['next_hop'] != want['next_hop']:
        return f'next hop {s["next_hop"]} != {want["next_hop"]}'
    if s['labels'] != want['labels']:
        return f'labels {s["labels"]} != {want["labels"]}'
    keys = set(s['attrs']) | set(want['attrs'])
    for key in sorted(keys):
        a, b = s['attrs'].get(key), want['attrs'].get(key)
        if key == 'as_path':
            a, b = a or [], b or []
        if a != b:
            return f'{key}: peer decodes {a!r}, requested {b!r}'
    return None
