"""C20 - the healthcheck helper announces and withdraws with rise/fall hysteresis."""

from __future__ import annotations

import argparse
import io
import re

from scenarios import ribworld as RW
from scenarios.common import R, Speaker, config_text, jclone, make_world, result, speaker_caps, viol

ID = 'C20'
LEVEL = 'exploration'
LEVEL_TEXT = (
    'the real healthcheck loop() and check() run under a synchronous simulator (a scripted check process: exit status 0, a failure status, '
    'death by a signal, or one that outlives the alarm and is killed; disable-file toggles, a '
    'virtual clock, SIGTERM / KeyboardInterrupt delivered at a chosen sleep, acknowledgement lines or EOF on stdin); a reference '
    'rise/fall automaton written from the property judges which batch may be emitted at each round; every distinct emitted line is then '
    'fed through a simulated helper pipe to the real reactor (real v6 dispatcher, route parser, RIB) with the named neighbors, where it '
    'must be acknowledged `done`, reach exactly the selected neighbors and carry the configured metric, next hop, communities and AS path. '
    'The (rise, fall) x result-sequence space up to length 6 is enumerated in the thorough tier.'
)
LEVEL_NOTE = 'trusts: the reference automaton in this file, the simulated clock/signal/stdin seams (module-level names of exabgp.application.healthcheck replaced from outside)'
DESIGN_REF = 'DESIGN.md section 5, C20'
RULE = (
    'plan = options (rise, fall 1-5, withdraw-on-down, debounce, metrics, increase, communities, AS paths per state, several IPs, path-id, '
    'neighbors, next hop, no-ack) x result script of 1-60 rounds (success/failure/timeout, disable toggles) x exit (SIGTERM or interrupt at '
    'round k, or none); non-trivial = the script contains both results or a disable toggle or an exit; distinct = (options, script) digests'
)
ASSUMPTIONS = [
    'necessary conditions from the property (up only after `rise` consecutive successes, down only after `fall` consecutive failures) plus a mild sufficiency: after rise+1 consecutive successes with no disable the announced batch is the up one (mirror for down)',
    'setup_ips/remove_ips (ip address management on the host) are stubbed off: --no-ip-setup',
]

LOCAL = '10.0.0.1'
NEIGHBORS = ['10.0.0.2', '10.0.0.3', '10.0.0.4']


# names exabgp prints for the well-known community values
WELL_KNOWN = {'65535:65281': 'no-export', '65535:65282': 'no-advertise', '65535:65283': 'no-export-subconfed', '65535:65284': 'no-peer', '65535:666': 'blackhole'}


def counts(tier: str):
    return (1000, 75.0) if tier == 'quick' else (20000, 900.0)


def generate(rng, tier: str, index: int) -> dict:
    nips = rng.choice([1, 1, 2, 3])
    ips = rng.sample(['203.0.113.1/32', '203.0.113.2/32', '198.51.100.0/24', '2001:db8::1/128'], nips)
    if any(':' in i for i in ips):
        ips = [i for i in ips if ':' not in i] or ['203.0.113.9/32']
    opts = {
        'rise': rng.randint(1, 5), 'fall': rng.randint(1, 5), 'withdraw_on_down': rng.chance(0.4), 'debounce': rng.chance(0.3),
        'up_metric': rng.choice([100, 10, 0]), 'down_metric': rng.choice([1000, 500]), 'disabled_metric': rng.choice([500, 700]),
        'increase': rng.choice([1, 10, 0]), 'ips': ips, 'no_ack': rng.chance(0.2),
        'community': rng.choice([None, '65000:1', '65000:1 65000:2', '65535:65281', '0:0 65535:65535']), 'disabled_community': rng.choice([None, None, '65000:666', '65535:0']),
        'large_community': rng.choice([None, None, '65000:1:2']), 'extended_community': rng.choice([None, None, 'target:65000:1']),
        'as_path': rng.choice([None, None, '65010 65011']), 'up_as_path': rng.choice([None, None, '65020']), 'down_as_path': rng.choice([None, None, '65030 65030 65030']),
        'disabled_as_path': rng.choice([None, None, '65040']), 'local_preference': rng.choice([-1, -1, 200]),
        'next_hop': rng.choice([None, None, '10.0.0.99']), 'path_id': rng.choice([None, None, 7]),
        'neighbors': rng.choice([None, None, ['*'], ['10.0.0.2'], ['10.0.0.2', '10.0.0.3']]),
        'interval': rng.choice([5, 1, 0.5]), 'fast': rng.choice([1, 0.2]), 'use_disable': rng.chance(0.4),
    }  # fmt: skip
    n = rng.randint(1, 60 if tier == 'thorough' else 30)
    style = rng.choice(['random', 'random', 'flappy', 'runs'])
    script = []
    cur = rng.choice(['S', 'F'])
    for i in range(n):
        if style == 'random':
            r = rng.choice(['S', 'S', 'F', 'F', 'T'])
        elif style == 'flappy':
            r = 'S' if i % 2 == 0 else 'F'
        else:
            if rng.chance(0.2):
                cur = 'F' if cur == 'S' else 'S'
            r = cur
        dis = opts['use_disable'] and rng.chance(0.12)
        script.append(r + ('d' if dis else ''))
    exit_mode = rng.choice(['none', 'sigterm', 'interrupt', 'sigterm'])
    plan = {'micro_seed': rng.randint(1, 1 << 48), 'knobs': {'tick': 0.002}, 'opts': opts, 'script': script, 'exit': exit_mode, 'stdin_eof_at': rng.choice([None, None, None, rng.randint(0, 20)])}
    # how a failing check command ends: an exit status, or death by a signal (a negative returncode: a crash, the OOM killer)
    f = rng.fork('fail-codes')
    plan['fail_codes'] = [f.choice([1, 1, 2, 127, 255, -11, -9, -15]) for _ in range(f.randint(1, 4))]
    return plan


def grid(tier: str):
    if tier != 'thorough':
        return []
    plans = []
    n = 0
    import itertools

    for rise in (1, 2, 3):
        for fall in (1, 2, 3):
            for length in range(1, 7):
                for seq in itertools.product('SF', repeat=length):
                    n += 1
                    opts = {
                        'rise': rise, 'fall': fall, 'withdraw_on_down': n % 2 == 0, 'debounce': n % 3 == 0, 'up_metric': 100, 'down_metric': 1000,
                        'disabled_metric': 500, 'increase': 1, 'ips': ['203.0.113.1/32'], 'no_ack': False, 'community': None, 'disabled_community': None,
                        'large_community': None, 'extended_community': None, 'as_path': None, 'up_as_path': None, 'down_as_path': None,
                        'disabled_as_path': None, 'local_preference': -1, 'next_hop': None, 'path_id': None, 'neighbors': None, 'interval': 5, 'fast': 1, 'use_disable': False,
                    }  # fmt: skip
                    plans.append({'micro_seed': n, 'knobs': {'tick': 0.002}, 'opts': opts, 'script': list(seq), 'exit': 'sigterm', 'stdin_eof_at': None, 'skip_daemon': True})
    return plans


# ------------------------------------------------------------------ (A) the helper under a synchronous simulator


class _Exit(Exception):
    pass


def run_helper(plan: dict) -> dict:
    import exabgp.application.healthcheck as hc

    o = plan['opts']
    argv = ['--no-ip-setup', '--no-syslog', '--rise', str(o['rise']), '--fall', str(o['fall']), '--interval', str(o['interval']), '--fast-interval', str(o['fast']),
            '--up-metric', str(o['up_metric']), '--down-metric', str(o['down_metric']), '--disabled-metric', str(o['disabled_metric']), '--increase', str(o['increase']),
            '--command', 'check-the-service', '--local-preference', str(o['local_preference'])]  # fmt: skip
    for ip in o['ips']:
        argv += ['--ip', ip]
    for flag, key in (('--withdraw-on-down', 'withdraw_on_down'), ('--debounce', 'debounce'), ('--no-ack', 'no_ack')):
        if o[key]:
            argv.append(flag)
    for flag, key in (('--community', 'community'), ('--disabled-community', 'disabled_community'), ('--large-community', 'large_community'), ('--extended-community', 'extended_community'),
                      ('--as-path', 'as_path'), ('--up-as-path', 'up_as_path'), ('--down-as-path', 'down_as_path'), ('--disabled-as-path', 'disabled_as_path'), ('--next-hop', 'next_hop')):  # fmt: skip
        if o[key] is not None:
            argv += [flag, str(o[key])]
    if o['path_id'] is not None:
        argv += ['--path-id', str(o['path_id'])]
    for nb in o['neighbors'] or []:
        argv += ['--neighbor', nb]
    if o['use_disable']:
        argv += ['--disable', '/sim/disable']
    parser = argparse.ArgumentParser()
    hc.setargs(parser)
    options = parser.parse_args(argv)
    options.ips = list(options.ips)

    st = {'round': -1, 'clock': 0.0, 'lines': [], 'checks': 0, 'acks_read': 0, 'handler': None, 'sleeps': 0, 'exit_fired': False}
    script = plan['script']

    def cur() -> str:
        return script[st['round']] if 0 <= st['round'] < len(script) else 'S'

    class FakePath:
        @staticmethod
        def exists(p):
            if p == '/sim/disable':
                st['round'] += 1  # the first thing one() does each round
                st['disable_seen'] = True
                return 'd' in cur() if st['round'] < len(script) else False
            return False

    class FakeOs:
        path = FakePath
        devnull = '/dev/null'

        class environ:
            @staticmethod
            def copy():
                return {}

        @staticmethod
        def setpgrp():
            pass

        @staticmethod
        def killpg(pid, sig):
            st['killed'] = st.get('killed', 0) + 1

    # the real check() runs; what it starts is a scripted process: exit status 0, a failure status, death by a signal, or one that
    # outlives the alarm
    class FakePopen:
        pid = 4242

        def __init__(self, cmd, **kw):
            if not o['use_disable']:
                st['round'] += 1
            st['checks'] += 1
            if st['round'] >= len(script):
                raise _Exit('script exhausted')
            self.kind = cur()[0]
            self.returncode = None

        def communicate(self):
            if self.kind == 'T' and st.get('alarm_handler') is not None and st.get('alarm_armed'):
                st['alarm_handler'](14, None)  # raises check()'s Alarm
            codes = plan.get('fail_codes') or [1]
            self.returncode = 0 if self.kind == 'S' else codes[st['checks'] % len(codes)]
            if self.returncode < 0:
                st['signal_deaths'] = st.get('signal_deaths', 0) + 1
            return (b'' if st['checks'] % 2 else b'some output\n', None)

    class FakeSubprocess:
        PIPE = -1
        STDOUT = -2
        Popen = FakePopen

    class FakeTime:
        @staticmethod
        def sleep(d):
            st['clock'] += d
            st['sleeps'] += 1
            if st['round'] >= len(script) - 1 and not st['exit_fired']:
                st['exit_fired'] = True
                if plan['exit'] == 'interrupt':
                    raise KeyboardInterrupt
                if plan['exit'] == 'sigterm' and st['handler'] is not None:
                    st['handler'](15, None)
                raise _Exit('end of script')

        @staticmethod
        def time():
            return st['clock']

    class FakeSignal:
        SIGTERM = 15
        SIGALRM = 14
        SIGKILL = 9

        @staticmethod
        def signal(num, handler):
            if num == 15:
                st['handler'] = handler
            if num == 14:
                st['alarm_handler'] = handler

        @staticmethod
        def alarm(n):
            st['alarm_armed'] = n > 0
            return 0

    class Out:
        def write(self, text):
            st['lines'].append((st['round'], text))

        def flush(self):
            pass

        def isatty(self):
            return False

    class In:
        def readline(self):
            st['acks_read'] += 1
            if plan.get('stdin_eof_at') is not None and st['acks_read'] > plan['stdin_eof_at']:
                return ''
            return 'done\n'

    class FakeSys:
        stdout = Out()
        stdin = In()
        argv = ['healthcheck']

        @staticmethod
        def exit(code=0):
            raise SystemExit(code)

    saved = {k: getattr(hc, k) for k in ('subprocess', 'time', 'os', 'signal', 'sys')}
    import logging

    hc.logger.setLevel(logging.CRITICAL + 1)
    hc.subprocess = FakeSubprocess
    hc.time = FakeTime
    hc.os = FakeOs
    hc.signal = FakeSignal
    hc.sys = FakeSys
    ended = 'return'
    try:
        hc.loop(options)
    except _Exit as e:
        ended = f'cut: {e}'
    except SystemExit:
        ended = 'sys.exit'
    except KeyboardInterrupt:
        ended = 'KeyboardInterrupt escaped'
    finally:
        for k, v in saved.items():
            setattr(hc, k, v)
    return {'lines': st['lines'], 'ended': ended, 'checks': st['checks'], 'rounds': st['round'] + 1, 'signal_deaths': st.get('signal_deaths', 0), 'killed_on_timeout': st.get('killed', 0)}


# ------------------------------------------------------------------ reference automaton + line model

_LINE = re.compile(r'^(?P<prefix>peer .+?) (?P<action>announce|withdraw) route (?P<ip>\S+) next-hop (?P<nh>\S+)(?P<rest>.*)$')


def parse_line(text: str):
    m = _LINE.match(text.rstrip('\n'))
    if not m or not text.endswith('\n') or text.count('\n') != 1:
        return None
    d = m.groupdict()
    rest = d['rest']
    med = re.search(r' med (\d+)', rest)
    d['med'] = int(med.group(1)) if med else None
    for key, pat in (('community', r' community \[ (.*?) \]'), ('large', r' large-community \[ (.*?) \]'), ('ext', r' extended-community \[ (.*?) \]'), ('aspath', r' as-path \[ (.*?) \]'), ('lp', r' local-preference (\d+)'), ('pid', r' path-information (\d+)')):
        mm = re.search(pat, rest)
        d[key] = mm.group(1) if mm else None
    return d


def judge_batches(plan: dict, out: dict) -> list[dict]:
    o = plan['opts']
    script = plan['script']
    v: list[dict] = []
    nips = len(o['ips'])
    # group lines per round
    rounds: dict[int, list] = {}
    for rnd, text in out['lines']:
        d = parse_line(text)
        if d is None:
            return [viol('C20/malformed-line', f'round {rnd}: {text!r} is not one `peer <selector> announce|withdraw route <ip> next-hop <nh> ...` line', line=text[:120])]
        rounds.setdefault(rnd, []).append(d)
    exit_round = max(rounds) if (plan['exit'] in ('sigterm', 'interrupt') and rounds) else None
    announced = None  # what the daemon currently holds: 'up' | 'down' | 'disabled' | 'withdrawn'
    last_batch_round = {}
    for rnd in sorted(rounds):
        lines = rounds[rnd]
        batches = [lines[i : i + nips] for i in range(0, len(lines), nips)]
        if any(len(b) != nips for b in batches):
            return [viol('C20/batch-size', f'round {rnd}: {len(lines)} lines for {nips} addresses', round=rnd)]
        for bi, batch in enumerate(batches):
            is_exit = exit_round is not None and rnd == exit_round and bi == len(batches) - 1 and all(x['action'] == 'withdraw' for x in batch) and rnd >= len(script) - 1
            kind = classify(o, batch, 'd' in script[rnd] if rnd < len(script) else False)
            if kind is None and not is_exit:
                return [viol('C20/unknown-batch', f'round {rnd}: batch {[(x["action"], x["med"]) for x in batch]} matches no state of the configuration', round=rnd)]
            if is_exit:
                announced = 'withdrawn'
                continue
            disabled_now = 'd' in script[rnd] if rnd < len(script) else False
            hist = script[: rnd + 1]
            if kind == 'disabled':
                if not disabled_now:
                    return [viol('C20/disabled-batch-without-disable-file', f'round {rnd}: disabled announcement although the disable file is absent', round=rnd)]
            elif kind == 'up':
                need = o['rise']
                tail = hist[-need:]
                if len(tail) < need or any(x[0] != 'S' or 'd' in x for x in tail):
                    return [viol('C20/up-without-rise-successes', f'round {rnd}: UP announcement but the last {need} results were {tail} (rise={need}, script so far {"".join(x[0] for x in hist)})', rise=need, round=rnd)]
            elif kind == 'down':
                need = o['fall']
                tail = hist[-need:]
                if len(tail) < need or any(x[0] == 'S' or 'd' in x for x in tail):
                    return [viol('C20/down-without-fall-failures', f'round {rnd}: DOWN announcement/withdraw but the last {need} results were {tail} (fall={need}, script so far {"".join(x[0] for x in hist)})', fall=need, round=rnd)]
            v2 = check_batch_content(o, kind, batch, rnd)
            if v2:
                return [v2]
            announced = kind
            last_batch_round[kind] = rnd
    # sufficiency (mild): after rise+1 consecutive successes without disable, the announcement in force must be the up one
    run = 0
    runf = 0
    state_at = {}
    cur = None
    for rnd in range(min(out['rounds'], len(script))):
        for d in rounds.get(rnd, []):
            pass
        if rnd in rounds:
            k = classify(o, rounds[rnd][:nips], 'd' in script[rnd])
            if k:
                cur = k
        x = script[rnd]
        if 'd' in x:
            run = runf = 0
            continue
        if x[0] == 'S':
            run += 1
            runf = 0
        else:
            runf += 1
            run = 0
        if run >= o['rise'] + 2 and cur != 'up' and (exit_round is None or rnd < exit_round):
            return [viol('C20/never-up', f'round {rnd}: {run} consecutive successes (rise={o["rise"]}) but the announcement in force is {cur}', round=rnd)]
        if runf >= o['fall'] + 2 and cur != 'down' and (exit_round is None or rnd < exit_round):
            return [viol('C20/never-down', f'round {rnd}: {runf} consecutive failures (fall={o["fall"]}) but the announcement in force is {cur}', round=rnd)]
    # exit: every address withdrawn
    if plan['exit'] in ('sigterm', 'interrupt') and out['ended'] != 'cut: script exhausted':
        last = [parse_line(t) for r, t in out['lines'][-nips:]]
        if len(last) < nips or any(x is None or x['action'] != 'withdraw' for x in last) or sorted(x['ip'] for x in last) != sorted(o['ips']):
            return [viol('C20/no-withdraw-on-exit', f'exit by {plan["exit"]}: the last {nips} lines were {[t.strip()[:70] for _, t in out["lines"][-nips:]]}, expected a withdraw for each of {o["ips"]}', exit=plan['exit'])]
    return v


def expected_for(o: dict, kind: str):
    metric = {'up': o['up_metric'], 'down': o['down_metric'], 'disabled': o['disabled_metric']}[kind]
    aspath = {'up': o['up_as_path'], 'down': o['down_as_path'], 'disabled': o['disabled_as_path']}[kind]
    if aspath is None:
        aspath = o['as_path']
    community = o['community']
    if kind in ('down', 'disabled') and o['disabled_community']:
        community = o['disabled_community']
    return metric, aspath, community


def classify(o: dict, batch, disabled_now: bool = False) -> str | None:
    acts = {x['action'] for x in batch}
    if acts == {'withdraw'}:
        # with --withdraw-on-down every state but UP withdraws, the disabled one included
        if not o['withdraw_on_down']:
            return None
        return 'disabled' if disabled_now else 'down'
    if acts != {'announce'}:
        return None
    med = batch[0]['med']
    cands = [k for k in ('up', 'down', 'disabled') if expected_for(o, k)[0] == med]
    if o['withdraw_on_down']:
        cands = [k for k in cands if k == 'up']
    if disabled_now and 'disabled' in cands:
        cands = ['disabled'] + [k for k in cands if k != 'disabled']
    # disambiguate equal metrics by as-path / community
    for k in cands:
        m, ap, com = expected_for(o, k)
        if batch[0]['aspath'] == ap and batch[0]['community'] == com:
            return k
    return cands[0] if cands else None


def check_batch_content(o: dict, kind: str, batch, rnd: int):
    metric, aspath, community = expected_for(o, kind)
    want_prefix = 'peer *'
    if o['neighbors'] and '*' not in o['neighbors']:
        want_prefix = None  # judged by the daemon side (which neighbors are reached)
    for i, (x, ip) in enumerate(zip(batch, o['ips'])):
        if x['ip'] != ip:
            return viol('C20/wrong-address', f'round {rnd}: line {i} is for {x["ip"]}, expected {ip}', round=rnd)
        if x['nh'] != (o['next_hop'] or 'self'):
            return viol('C20/wrong-next-hop', f'round {rnd}: next-hop {x["nh"]}, configured {o["next_hop"] or "self"}', round=rnd)
        if want_prefix and x['prefix'] != want_prefix:
            return viol('C20/wrong-selector', f'round {rnd}: selector {x["prefix"]!r}, expected {want_prefix!r}', round=rnd)
        if x['action'] == 'announce':
            if x['med'] != metric + i * o['increase']:
                return viol('C20/wrong-metric', f'round {rnd}: {kind} line {i} has med {x["med"]}, expected {metric} + {i} x {o["increase"]}', kind=kind, round=rnd)
            if x['aspath'] != aspath:
                return viol('C20/wrong-as-path', f'round {rnd}: {kind} line has as-path {x["aspath"]!r}, expected {aspath!r}', kind=kind)
            if x['community'] != community:
                return viol('C20/wrong-community', f'round {rnd}: {kind} line has community {x["community"]!r}, expected {community!r}', kind=kind)
            if x['large'] != o['large_community'] or x['ext'] != o['extended_community']:
                return viol('C20/wrong-community', f'round {rnd}: large/extended community {x["large"]!r}/{x["ext"]!r}, expected {o["large_community"]!r}/{o["extended_community"]!r}', kind=kind)
            if (x['lp'] is not None) != (o['local_preference'] >= 0) or (x['lp'] is not None and int(x['lp']) != o['local_preference']):
                return viol('C20/wrong-local-preference', f'round {rnd}: local-preference {x["lp"]}, configured {o["local_preference"]}')
        if (x['pid'] is not None) != bool(o['path_id']) or (x['pid'] is not None and int(x['pid']) != o['path_id']):
            return viol('C20/wrong-path-id', f'round {rnd}: path-information {x["pid"]}, configured {o["path_id"]}')
    return None


# ------------------------------------------------------------------ (B) the daemon side


def run_daemon(plan: dict, lines: list[str]):
    """feed distinct lines to the real reactor; -> (world, violations)"""
    w = make_world(plan)
    o = plan['opts']
    confs = []
    speakers = []
    for i, ip in enumerate(NEIGHBORS):
        confs.append(
            {
                'peer_ip': ip, 'local_ip': LOCAL, 'local_as': 65001, 'peer_as': 65100 + i, 'router_id': LOCAL, 'hold': 180, 'families': [(1, 1)], 'adj-rib-out': True,
                'api': {'processes': ['h1']}, 'caps': {'add-path': 'send/receive'} if o['path_id'] else {}, 'addpath_families': [(1, 1)] if o['path_id'] else None,
            }
        )  # fmt: skip
        spec = {'asn': 65100 + i}
        if o['path_id']:
            spec['addpath'] = [(1, 1, 3)]
        speakers.append(Speaker(w, f'p{i}', ip, 65100 + i, ip, LOCAL, hold=180, caps=speaker_caps(spec)))
    w.boot(config_text([{'name': 'h1'}], confs))
    h = w.procs.helper('h1')
    violations: list[dict] = []
    st = {'i': 0, 'acks': 0, 'sent_at': 0.0}
    selected = NEIGHBORS if (not o['neighbors'] or '*' in o['neighbors']) else list(o['neighbors'])

    def step() -> None:
        if violations:
            w.signal('SHUTDOWN')
            return
        if st['i'] > 0:
            # judge the previous line
            text = lines[st['i'] - 1]
            acks = [ln for _, ln in h.lines if ln in ('done', 'error')]
            if len(acks) != st['i'] or acks[-1] != 'done':
                violations.append(viol('C20/line-refused-by-daemon', f'the real API answered {acks[-1:] or "nothing"} to {text.strip()!r}', line=text.strip()[:100]))
                w.signal('SHUTDOWN')
                return
            d = parse_line(text)
            for ip in NEIGHBORS:
                peer = w.peer_for(ip)
                rep = RW.reported_table(peer.neighbor, bool(o['path_id']))
                key = RW.key_of(d['ip'], o['path_id'], bool(o['path_id']))
                have = rep.get(key)
                if ip in selected and d['action'] == 'announce':
                    nh = LOCAL if d['nh'] == 'self' else d['nh']
                    if have is None or have[1] != d['med'] or (RW.LOCAL if have[0] == 'self' else have[0]) != nh:
                        violations.append(viol('C20/route-not-as-configured', f'after {text.strip()!r} neighbor {ip} holds {have} for {d["ip"]} (expected next hop {nh} med {d["med"]})', neighbor=ip))
                        break
                    route = next(r for r in peer.neighbor.rib.outgoing.cached_routes() if r.extensive().startswith(d['ip'].replace('/32', '/32')))
                    ext = route.extensive()
                    for token, val in (('as-path', d['aspath']), ('community', d['community'])):
                        if val and not all(part in ext or WELL_KNOWN.get(part, '\x00') in ext for part in val.split()):
                            violations.append(viol('C20/attribute-lost', f'{token} {val!r} of {text.strip()!r} is not in the route the daemon holds: {ext}'))
                            break
                elif ip in selected and d['action'] == 'withdraw':
                    if have is not None:
                        violations.append(viol('C20/withdraw-ignored', f'after {text.strip()!r} neighbor {ip} still holds {have}'))
                        break
                elif ip not in selected and have is not None:
                    violations.append(viol('C20/wrong-neighbors-reached', f'{text.strip()!r} selected {selected} but neighbor {ip} holds the route', neighbor=ip))
                    break
        if st['i'] >= len(lines) or violations:
            w.signal('SHUTDOWN')
            return
        h.emit(lines[st['i']].encode())
        st['i'] += 1
        w.after(0.6, step)

    def start() -> None:
        if all(sp.established() for sp in speakers):
            step()
        else:
            w.after(0.5, start)

    w.at(1.0, start)
    w.run(until=120.0)
    return w, violations


def execute(plan: dict) -> dict:
    out = run_helper(plan)
    violations = []
    if out['ended'] == 'KeyboardInterrupt escaped':
        violations.append(viol('C20/interrupt-escaped', 'KeyboardInterrupt left loop() without the exit batch'))
    if not violations:
        violations = judge_batches(plan, out)
    distinct = []
    for _, t in out['lines']:
        if t not in distinct:
            distinct.append(t)
    w = None
    if not violations and distinct and not plan.get('skip_daemon'):
        # announces first so that a withdraw line has something to remove
        w, violations = run_daemon(plan, distinct[:12])
    if w is None:
        w = make_world(plan)
        w.ended = 'exit'
        w.rec('helper-only', lines=len(out['lines']))
        for rnd, t in out['lines'][:200]:
            w.rec('line', round=rnd, text=t.strip()[:80])
    s = ''.join(x[0] for x in plan['script'])
    nontrivial = ('S' in s and ('F' in s or 'T' in s)) or any('d' in x for x in plan['script']) or plan['exit'] != 'none'
    return result(
        w, violations[:1], faults={'check_failures': s.count('F'), 'check_timeouts': s.count('T'), 'disable_toggles': sum(1 for x in plan['script'] if 'd' in x), 'exit_' + plan['exit']: 1,
                             'check_killed_by_signal': out.get('signal_deaths', 0), 'check_killed_on_timeout': out.get('killed_on_timeout', 0)},
        probes={'rounds': out['rounds'], 'lines': len(out['lines']), 'distinct_lines_to_daemon': len(distinct[:12])}, nontrivial=nontrivial,
        sample={'rise': plan['opts']['rise'], 'fall': plan['opts']['fall'], 'script': s[:40], 'exit': plan['exit']},
    )  # fmt: skip


def shrink_candidates(plan: dict):
    from exasim.runner import generic_candidates

    yield from generic_candidates(plan, ['script'])
    if plan['exit'] != 'none':
        p = jclone(plan)
        p['exit'] = 'none'
        yield p
    o = plan['opts']
    for key, val in (('neighbors', None), ('path_id', None), ('community', None), ('disabled_community', None), ('large_community', None), ('extended_community', None),
                     ('as_path', None), ('up_as_path', None), ('down_as_path', None), ('disabled_as_path', None), ('next_hop', None), ('local_preference', -1),
                     ('debounce', False), ('withdraw_on_down', False), ('no_ack', False), ('use_disable', False)):  # fmt: skip
        if o.get(key) != val:
            p = jclone(plan)
            p['opts'][key] = val
            yield p
    if len(o['ips']) > 1:
        p = jclone(plan)
        p['opts']['ips'] = o['ips'][:1]
        yield p
