"""C05 - the session state machine only takes RFC 4271 transitions."""

from __future__ import annotations

import json

from scenarios.common import R, Speaker, config_text, jclone, knobs, make_world, result, speaker_caps, viol, wire_messages

ID = 'C05'
LEVEL = 'exploration'
LEVEL_TEXT = (
    'seeded exploration of orderings of {incoming connection (incl. collisions in OPENSENT / OPENCONFIRM / ESTABLISHED), outgoing '
    'connect result (accept, refuse, slow, black hole), any message valid or not, EOF, reset, silence, API teardown, reload with '
    'unchanged / changed / removed neighbor, restart} placed reactively in every FSM state of 1-3 active and passive neighbors; '
    'invariants over the recorded history: every FSM.change is in the RFC 4271 relation, ESTABLISHED has its preconditions on that very '
    'connection, UPDATE/End-of-RIB/ROUTE-REFRESH bytes only in ESTABLISHED, the transport is closed when a connected state is left, '
    'and up/down events alternate on the API.'
    ' Neighbors with `local-as auto`, an address-range neighbor with one or two peers, and a motif placing an incoming connection and the removal of the neighbor inside its back-off or pending connect; a neighbor no longer configured may not hold an ESTABLISHED session.'
    ' A sixth of the plans read the helper pipe slowly (EAGAIN, short writes): the order of the events is what is judged there.'
)
LEVEL_NOTE = 'trusts: the transition relation written out in this file from RFC 4271 8.2.2, simulated TCP/listener, pass-through recorder on FSM.change'
DESIGN_REF = 'DESIGN.md section 5, C05'
RULE = (
    'plan = neighbors (active/passive, iBGP/eBGP, graceful-restart, tcp.attempts) x up to 30 events with reactive triggers (on entering a '
    'given FSM state + delay) or absolute times; non-trivial = at least one event fired while its peer was in a connected state other '
    'than ESTABLISHED, or a collision happened; distinct = schedule signatures'
)
ASSUMPTIONS = [
    'an `up` that is never followed by another `up` is not judged (with tcp.attempts exhausted exabgp stops the peer without a `down`)',
    'the socket owned by the peer immediately before it leaves a connected state must be closed by the end of that loop pass (identity of the socket, so a newly accepted incoming connection is not mistaken for a leak)',
]

LOCAL = '10.0.0.1'
PEERS = ['10.0.0.2', '10.0.0.3', '10.0.0.4']
PORT = 1790

ALLOWED = {
    'IDLE': {'IDLE', 'CONNECT', 'ACTIVE'},
    'CONNECT': {'CONNECT', 'ACTIVE', 'OPENSENT', 'IDLE'},
    'ACTIVE': {'ACTIVE', 'CONNECT', 'OPENSENT', 'IDLE'},
    'OPENSENT': {'OPENSENT', 'ACTIVE', 'OPENCONFIRM', 'IDLE'},
    'OPENCONFIRM': {'OPENCONFIRM', 'ESTABLISHED', 'IDLE'},
    'ESTABLISHED': {'ESTABLISHED', 'IDLE'},
}
CONNECTED = {'CONNECT', 'OPENSENT', 'OPENCONFIRM', 'ESTABLISHED'}
ACTS = ['connect-in', 'close', 'reset', 'send-ka', 'send-update', 'send-open', 'send-notification', 'send-refresh', 'send-garbage', 'send-unknown', 'send-bad-open', 'garbage-then-write-fails',
        'silent-on', 'silent-off', 'refuse', 'blackhole', 'slow-accept', 'accept', 'teardown', 'reload-same', 'reload-changed', 'reload-removed', 'restart']  # fmt: skip


def counts(tier: str):
    return (1200, 75.0) if tier == 'quick' else (20000, 900.0)


def generate(rng, tier: str, index: int) -> dict:
    nn = rng.choice([1, 1, 2, 3])
    nbrs = []
    for i in range(nn):
        nbrs.append(
            {
                'idx': i, 'peer_ip': PEERS[i], 'peer_as': rng.choice([65002, 65001]), 'passive': rng.chance(0.35), 'hold': rng.choice([0, 3, 6, 9, 30]), 'ka_delay': rng.choice([0.0, 0.0, 0.0, 0.3, 2.0]), 'open_delay': rng.choice([0.0, 0.0, 0.5, 2.5]),
                'gr': rng.choice([0, 0, 120]), 'spk_rid': rng.choice(['10.0.0.0', '10.9.9.9']) if rng.chance(0.5) else PEERS[i],
                'spk_accept': rng.choice(['accept', 'accept', 'refuse', 'blackhole', 'slow']),
            }
        )  # fmt: skip
        # `local-as auto`: exabgp reads the peer's OPEN first and answers with the peer's AS (another walk through _establish)
        nbrs[-1]['local_auto'] = rng.chance(0.15)
    if rng.chance(0.12):
        # the first neighbor is configured as an address range (`neighbor 10.0.1.0/24 { passive; }`): its peer is made
        # by the listener when the speaker connects in, and is not restarted by exabgp after a loss
        nbrs[0].update({'range': True, 'peer_ip': '10.0.1.2', 'passive': True, 'local_auto': False})
        if nn > 1 and rng.chance(0.5):
            # a second peer of the same range (one `neighbor` block serves both)
            nbrs[1].update({'range': True, 'peer_ip': '10.0.1.3', 'passive': True, 'local_auto': False, 'peer_as': nbrs[0]['peer_as'], 'hold': nbrs[0]['hold'], 'gr': nbrs[0]['gr']})
    events = []
    for _ in range(rng.randint(2, 30 if tier == 'thorough' else 16)):
        peer = rng.randint(0, nn - 1)
        if rng.chance(0.6):
            when = {'state': rng.choice(['CONNECT', 'OPENSENT', 'OPENSENT', 'OPENCONFIRM', 'OPENCONFIRM', 'ESTABLISHED', 'IDLE', 'ACTIVE']), 'nth': rng.randint(1, 3), 'delay': rng.choice([0.0, 0.0, 0.001, 0.01, 0.05, 0.3])}
        else:
            when = {'t': round(rng.random() * 40.0, 3)}
        events.append({'when': when, 'peer': peer, 'act': rng.choice(ACTS), 'arg': rng.randint(0, 9)})
    attempts = rng.choice([0, 0, 0, 1, 3])
    if nn >= 2 and rng.chance(0.12):
        # a neighbor whose attempts are refused sits in its back-off; the peer connects in, and before the peer task wakes up
        # a reload removes the neighbor (or stops it while its own connect is still pending): whatever it owns must be closed
        i = rng.randint(0, nn - 1)
        nbrs[i].update({'spk_accept': rng.choice(['refuse', 'slow']), 'passive': False, 'range': False, 'peer_ip': PEERS[i]})
        d = rng.choice([0.05, 0.3, 1.0])
        st_ = rng.choice(['IDLE', 'IDLE', 'CONNECT'])
        n_ = rng.randint(1, 3)
        events = events[:6] + [
            {'when': {'state': st_, 'nth': n_, 'delay': d}, 'peer': i, 'act': 'connect-in', 'arg': 0},
            {'when': {'state': st_, 'nth': n_, 'delay': d + rng.choice([0.001, 0.02, 0.1])}, 'peer': i, 'act': 'reload-removed', 'arg': 0},
            {'when': {'state': st_, 'nth': n_, 'delay': d + 3.0}, 'peer': i, 'act': 'accept', 'arg': 0},
        ]
        attempts = 0
    return {
        'micro_seed': rng.randint(1, 1 << 48), 'knobs': knobs(rng), 'neighbors': nbrs, 'events': events,
        'attempts': attempts, 'openwait': rng.choice([3, 10]), 'horizon': 60.0,
        # a helper that reads slowly: its pipe fills (EAGAIN, short writes) while sessions flap; what it reads stays in order
        'pipe': rng.choice([None, None, None, None, None, {'capacity': rng.choice([40, 200, 600]), 'refill_every': rng.choice([0.05, 0.5, 2.0])}]),
    }  # fmt: skip


def _delay_keepalive(w, sp, delay: float) -> None:
    """the speaker confirms the OPEN exchange with its KEEPALIVE only after `delay` seconds"""
    sp.auto_keepalive = False

    def on_open(sess) -> None:
        def later() -> None:
            if sess.state != 'closed' and sess.sent_open and not sess.sent_ka and not sp.silent:
                sess.sent_ka = True
                sess.send(R.keepalive())

        w.after(delay, later)

    sp.on_open.append(on_open)


def _delay_open(w, sp, delay: float) -> None:
    """the speaker sends its OPEN only `delay` seconds after the connection: exabgp waits in OPENSENT"""
    sp.auto_open = False

    def on_session(sess) -> None:
        w.after(delay, lambda: sp.send_open(sess) if sess.state != 'closed' and not sp.silent else None)

    sp.on_session.append(on_session)


def neighbor_conf(nb: dict, removed=False, changed=False) -> dict:
    n = {
        'peer_ip': '10.0.1.0/24' if nb.get('range') else nb['peer_ip'], 'local_ip': LOCAL, 'local_as': 'auto' if nb.get('local_auto') else 65001, 'peer_as': nb['peer_as'], 'router_id': '10.0.0.1',
        'hold': nb['hold'] + (7 if changed else 0), 'families': [(1, 1)], 'passive': nb['passive'],
        'caps': {'route-refresh': True, 'graceful-restart': nb['gr']} if nb['gr'] else {'route-refresh': True},
        'api': {'processes': ['h1'], 'options': ['neighbor-changes']}, 'static': [f'route 192.0.{2 + nb["idx"]}.0/24 next-hop self'],
    }  # fmt: skip
    return n


def execute(plan: dict) -> dict:
    plan = jclone(plan)
    k = plan.setdefault('knobs', {})
    k['listen_ip'] = LOCAL
    k['listen_port'] = PORT
    env = k.setdefault('env', {})
    env['bgp.openwait'] = plan.get('openwait', 10)
    env['tcp.attempts'] = plan.get('attempts', 0)
    w = make_world(plan)
    w.allow_early_exit = bool(plan.get('attempts'))  # with tcp.attempts exhausted the reactor exits by design
    nbrs = plan['neighbors']
    speakers = []
    for nb in nbrs:
        sp = Speaker(w, f'p{nb["idx"]}', nb['peer_ip'], nb['peer_as'], nb['spk_rid'], LOCAL, hold=nb['hold'], caps=speaker_caps({'asn': nb['peer_as'], 'gr': nb['gr'] or None}))
        if nb.get('ka_delay'):
            _delay_keepalive(w, sp, nb['ka_delay'])
        if nb.get('open_delay'):
            _delay_open(w, sp, nb['open_delay'])
        if nb['spk_accept'] == 'slow':
            sp.accept_delay = 3.0
        elif nb['spk_accept'] in ('refuse', 'blackhole'):
            sp.accept_mode = nb['spk_accept']
        speakers.append(sp)
    removed: set[int] = set()
    changed: set[int] = set()

    def conf_text() -> str:
        blocks, seen_range = [], False
        for nb in nbrs:
            if nb['idx'] in removed:
                continue
            if nb.get('range'):
                if seen_range:
                    continue
                seen_range = True
            blocks.append(neighbor_conf(nb, changed=nb['idx'] in changed))
        return config_text([{'name': 'h1'}], blocks)

    w.boot(conf_text())
    h = w.procs.helper('h1')
    if plan.get('pipe'):
        h.capacity = plan['pipe']['capacity']

        def refill() -> None:
            h.capacity = (h.capacity or 0) + plan['pipe']['capacity']
            w.after(plan['pipe']['refill_every'], refill)

        w.after(plan['pipe']['refill_every'], refill)

    probes = {'events_fired': 0, 'fired_in_connecting_state': 0, 'collisions': 0, 'incoming_accepted': 0, 'reloads': 0, 'established': 0}
    faults: dict = {}
    violations: list[dict] = []
    state_count: dict = {}
    pending_close: list[tuple] = []  # (fd, peer, frm, to, mono)

    def peer_state(i: int) -> str:
        p = w.peer_for(nbrs[i]['peer_ip'])
        return p.fsm.name() if p is not None else 'NONE'

    def fire(ev: dict) -> None:
        i = ev['peer']
        sp = speakers[i]
        act = ev['act']
        probes['events_fired'] += 1
        stt = peer_state(i)
        if stt in ('CONNECT', 'OPENSENT', 'OPENCONFIRM', 'ACTIVE'):
            probes['fired_in_connecting_state'] += 1
        faults[act] = faults.get(act, 0) + 1
        w.rec('event', act=act, peer=nbrs[i]['peer_ip'], state=stt)
        sess = sp.current()
        a = ev.get('arg', 0)
        if act == 'connect-in':
            if stt in ('OPENSENT', 'OPENCONFIRM', 'ESTABLISHED'):
                probes['collisions'] += 1
            sp.connect_in(LOCAL, PORT)
        elif act == 'close' and sess:
            sess.close()
        elif act == 'reset' and sess:
            sess.reset()
        elif act == 'send-ka' and sess:
            sess.send(R.keepalive())
        elif act == 'send-update' and sess:
            sess.send(R.eor() if a % 2 else R.build_update(withdrawn=bytes([24, 10, 1, a])))
        elif act == 'send-open' and sess:
            sess.send(R.build_open(sp.asn, sp.hold, sp.router_id, sp.caps))
        elif act == 'send-bad-open' and sess:
            sess.bad_open = True
            sess.send(R.build_open(sp.asn + 3, sp.hold, sp.router_id, [c for c in sp.caps if c[0] != 65] + [R.cap_asn4(sp.asn + 3)]))
        elif act == 'send-notification' and sess:
            sess.send(R.notification(6, 2 + a % 6, b''))
        elif act == 'send-refresh' and sess:
            sess.send(R.route_refresh(1, 1))
        elif act == 'send-garbage' and sess:
            sess.send(bytes([a]) * 19)
        elif act == 'garbage-then-write-fails' and sess:
            # ExaBGP reads a bad message and decides to answer with a NOTIFICATION, but the peer's window is closed
            # and the connection is reset while the NOTIFICATION waits to be written: the write itself fails
            sess.conn.set_window(0)
            sess.send(bytes([a]) * 19)
            w.after(0.15 + 0.05 * (a % 4), lambda sess=sess: sess.reset())
        elif act == 'send-unknown' and sess:
            sess.send(R.message(9 + a, b'\x00\x01'))
        elif act == 'silent-on':
            sp.silent = True
        elif act == 'silent-off':
            sp.silent = False
        elif act == 'refuse':
            sp.accept_mode = 'refuse'
        elif act == 'blackhole':
            sp.accept_mode = 'blackhole'
        elif act == 'slow-accept':
            sp.accept_mode = 'accept'
            sp.accept_delay = 2.0 + a
        elif act == 'accept':
            sp.accept_mode = 'accept'
            sp.accept_delay = None
        elif act == 'teardown':
            h.emit(f'peer {nbrs[i]["peer_ip"]} teardown {2 + a % 8}\n'.encode())
        elif act.startswith('reload') or act == 'restart':
            probes['reloads'] += 1
            if act == 'reload-changed':
                (changed.discard if i in changed else changed.add)(i)
            elif act == 'reload-removed' and len(nbrs) - len(removed) > 1:
                (removed.discard if i in removed else removed.add)(i)
            w.set_config(conf_text())
            w.signal('RESTART' if act == 'restart' else 'RELOAD')

    def on_fsm(name, frm, to, fd, peer) -> None:
        if to not in ALLOWED.get(frm, set()) and not violations:
            violations.append(viol('C05/illegal-transition', f'peer {name}: {frm} -> {to} is not an RFC 4271 transition', frm=frm, to=to))
        if frm in CONNECTED and to in ('IDLE', 'ACTIVE') and fd >= 0:
            pending_close.append((fd, name, frm, to, w.loop.mono))
        if to == 'ESTABLISHED':
            probes['established'] += 1
            if getattr(getattr(peer, 'neighbor', None), 'ephemeral', False):
                probes['established_range_peer'] = probes.get('established_range_peer', 0) + 1
            v = check_established(w, speakers, name, fd)
            if v and not violations:
                violations.append(v)
        i = next((n['idx'] for n in nbrs if n['peer_ip'] == name), None)
        if i is None:
            return
        key = (i, to)
        state_count[key] = state_count.get(key, 0) + 1
        for ev in plan['events']:
            wn = ev['when']
            if ev['peer'] == i and wn.get('state') == to and wn.get('nth') == state_count[key] and not ev.get('_done'):
                ev['_done'] = True
                w.after(wn.get('delay', 0.0), lambda ev=ev: fire(ev))

    w.fsm_hooks.append(on_fsm)

    def on_pass() -> None:
        while pending_close:
            fd, name, frm, to, t = pending_close.pop(0)
            sock = next((s for s in w.net.sockets if s._fd == fd), None)
            if sock is not None and not sock.closed and not violations:
                violations.append(viol('C05/transport-left-open', f'peer {name} left {frm} for {to} at t={t:.3f} but the socket it owned (fd {fd}) was still open at the end of that loop pass', frm=frm, to=to))

    w.loop.on_pass = on_pass

    unref: dict[int, float] = {}

    dead: dict = {}

    stopped_since: dict = {}

    def orphan_watch() -> None:
        owned = set()
        configured = {str(n.session.peer_address) for n in w.reactor.configuration.neighbors.values()}
        for name_, p in w.reactor._peers.items():
            # a peer whose neighbor a reload took out of the configuration was stopped (RFC 4271 ManualStop). exabgp stops lazily: a
            # handshake already under way runs to its end (bounded by openwait / hold time, not judged) and the session is then
            # ceased at once - what it may not do is hold an ESTABLISHED session: 8 s of it is a session that was never stopped
            addr = str(p.neighbor.session.peer_address)
            if addr not in configured and not p.neighbor.ephemeral and p.fsm.name() == 'ESTABLISHED':
                first = stopped_since.setdefault(name_, w.loop.mono)
                if w.loop.mono - first > 8.0 and not violations:
                    violations.append(viol('C05/removed-neighbor-still-running', f'neighbor {addr} was removed by a reload and its peer has been {p.fsm.name()} for {w.loop.mono - first:.1f}s since', state=p.fsm.name()))
            else:
                stopped_since.pop(name_, None)
            pr = p.proto
            if pr is not None and pr.connection is not None and pr.connection.io is not None:
                owned.add(id(pr.connection.io))
            # a session whose transport is gone (reset by the peer, or closed) must leave its connected state:
            # ExaBGP polls its sockets every 0.1 s, 5 s of a connected state on a dead transport is a stuck session
            io = pr.connection.io if (pr is not None and pr.connection is not None) else None
            gone = io is None or getattr(io, 'closed', False) or bool(getattr(io, '_rx_err', 0))
            if p.fsm.name() in CONNECTED and p.fsm.name() != 'CONNECT' and gone:
                first = dead.setdefault(name_, w.loop.mono)
                if w.loop.mono - first > 5.0 and not violations:
                    violations.append(viol('C05/connected-state-on-dead-transport', f'peer {p.neighbor.session.peer_address} has been {p.fsm.name()} for {w.loop.mono - first:.1f}s although its transport is reset or closed: the session never left the connected state', state=p.fsm.name()))
            else:
                dead.pop(name_, None)
        lst = w.reactor.listener
        for io in getattr(lst, '_accepted', {}).values():
            owned.add(id(io))
        for c in w.net.conns:
            s_ = c.sock
            if s_.closed or id(s_) in owned:
                unref.pop(c.cid, None)
                continue
            first = unref.setdefault(c.cid, w.loop.mono)
            if w.loop.mono - first > 4.0 and not violations and not w.reactor.asynchronous._async:
                violations.append(viol('C05/orphan-transport', f'connection {c.cid} (peer {c.sock.peer[0] if c.sock.peer else "?"}) has been open for {w.loop.mono - first:.1f}s without belonging to any peer: a transport was replaced or abandoned without being closed', cid=c.cid))
        w.after(0.5, orphan_watch)

    w.at(2.0, orphan_watch)

    for sp in speakers:
        sp.on_session.append(lambda s: probes.__setitem__('incoming_accepted', probes['incoming_accepted'] + (1 if s.conn.initiator == 'remote' else 0)))

    for ev in plan['events']:
        if 't' in ev['when']:
            w.at(1.0 + ev['when']['t'], lambda ev=ev: fire(ev))
    # passive neighbors need the speaker to connect in
    for i, nb in enumerate(nbrs):
        if nb['passive']:
            w.at(0.5 + 0.3 * i, lambda i=i: speakers[i].connect_in(LOCAL, PORT))

    def keep_trying() -> None:
        # like a real peer, a speaker with no session keeps retrying passive neighbors
        for i, nb in enumerate(nbrs):
            if nb['passive'] and speakers[i].current() is None and i not in removed:
                speakers[i].connect_in(LOCAL, PORT)
        w.after(5.0, keep_trying)

    w.at(6.0, keep_trying)
    snapshot: dict = {'t': 1e18, 'fsm': {}}

    def take_snapshot() -> None:
        snapshot['t'] = w.loop.mono
        snapshot['fsm'] = {str(p.neighbor.session.peer_address): p.fsm.name() for p in w.reactor._peers.values()}
        snapshot['quiet'] = not w.reactor.processes._write_queue if hasattr(w.reactor.processes, '_write_queue') else True

    w.at_end.append(take_snapshot)
    w.run(until=plan.get('horizon', 60.0))

    if not violations:
        violations.extend(check_wire(w, speakers))
    if not violations:
        violations.extend(check_updown(w, h))
    if not violations and snapshot['fsm'] is not None and snapshot['t'] < 1e17 and not plan.get('pipe'):
        violations.extend(check_final_down(w, h, snapshot))  # (with a slow pipe the last events may still be queued: order only)
    nontrivial = probes['fired_in_connecting_state'] > 0 or probes['collisions'] > 0
    return result(w, violations[:1], faults=faults, probes=probes, nontrivial=nontrivial, sample={'neighbors': len(nbrs), 'events': len(plan['events'])})


def check_established(w, speakers, name, fd):
    """ESTABLISHED only after, on that very connection: our OPEN written, an acceptable peer OPEN delivered, a KEEPALIVE delivered."""
    conn = next((c for c in w.net.conns if c.sock._fd == fd), None)
    if conn is None:
        return viol('C05/established-without-connection', f'peer {name} entered ESTABLISHED with no live transport (fd {fd})')
    sess = getattr(conn, 'session', None)
    sent = [mt for c, t, mt, b in wire_messages(w, conn.cid)]
    if not sent or sent[0] != R.OPEN:
        return viol('C05/established-before-open-sent', f'peer {name} entered ESTABLISHED but exabgp had written {sent[:3]} (no OPEN first) on that connection')
    if sess is None:
        return None
    delivered = [(mt) for (t, cum, mt) in sess.sent_log if cum <= conn.rx_bytes]
    if R.OPEN not in delivered:
        return viol('C05/established-without-peer-open', f'peer {name} entered ESTABLISHED but no OPEN from the peer had been delivered on that connection (delivered types {delivered})')
    after_open = delivered[delivered.index(R.OPEN) + 1 :]
    if R.KEEPALIVE not in after_open:
        return viol('C05/established-without-keepalive', f'peer {name} entered ESTABLISHED but no KEEPALIVE had been delivered after the peer OPEN (delivered types {delivered})')
    if getattr(sess, 'bad_open', False) and delivered[delivered.index(R.OPEN)] == R.OPEN and sess.sent_log and not sess.sent_open:
        return viol('C05/established-on-invalid-open', f'peer {name} entered ESTABLISHED although the only OPEN delivered carried the wrong AS')
    return None


def check_wire(w, speakers) -> list[dict]:
    out = []
    # label each message exabgp wrote with the FSM state of the owning peer when its first byte was written
    by_conn: dict = {}
    for cid, mono, n, state in w.tx_states:
        by_conn.setdefault(cid, []).append((n, state, mono))
    for cid in by_conn:
        msgs = wire_messages(w, cid)
        chunks = by_conn[cid]
        off = 0
        bounds = []
        for n, state, mono in chunks:
            bounds.append((off, off + n, state, mono))
            off += n
        pos = 0
        seen_notification = False
        for c, t, mt, body in msgs:
            st = next((s for a, b, s, _ in bounds if a <= pos < b), '?')
            pos += 19 + len(body)
            if seen_notification:
                out.append(viol('C05/write-after-notification', f'connection {cid}: {R.TYPE_NAMES.get(mt, mt)} written after a NOTIFICATION'))
                return out
            if mt == R.NOTIFICATION:
                seen_notification = True
            if mt in (R.UPDATE, R.ROUTE_REFRESH) and st != 'ESTABLISHED':
                out.append(viol('C05/update-outside-established', f'connection {cid}: {R.TYPE_NAMES.get(mt, mt)} ({len(body)} bytes) written at t={t:.3f} while the peer FSM was {st}', state=st, type=mt))
                return out
    return out


def check_updown(w, h) -> list[dict]:
    last: dict = {}
    for t, line in h.lines:
        if not line.startswith('{'):
            continue
        try:
            ev = json.loads(line)
        except ValueError:
            continue
        if ev.get('type') != 'state':
            continue
        nb = ev.get('neighbor', {})
        peer = nb.get('address', {}).get('peer')
        state = nb.get('state')
        if state == 'up':
            if last.get(peer) == 'up':
                return [viol('C05/up-without-down', f'neighbor {peer}: two "up" events on the API (second at t={t:.2f}) with no "down" in between', peer=peer)]
            last[peer] = 'up'
        elif state == 'down':
            last[peer] = 'down'
    return []


def check_final_down(w, h, snapshot: dict) -> list[dict]:
    """just before the shutdown: a neighbor whose last API event is "up" must still be ESTABLISHED"""
    last: dict = {}
    for t, line in h.lines:
        if t > snapshot['t'] + 0.3 or not line.startswith('{'):  # a "down" still in the pipe at the snapshot counts
            continue
        try:
            ev = json.loads(line)
        except ValueError:
            continue
        if ev.get('type') == 'state' and ev.get('neighbor', {}).get('state') in ('up', 'down'):
            last[ev['neighbor'].get('address', {}).get('peer')] = ev['neighbor']['state']
    for peer, state in last.items():
        if state == 'up' and snapshot['fsm'].get(peer) != 'ESTABLISHED':
            return [viol('C05/up-without-down', f'neighbor {peer}: the last event on the API is "up" but the peer is {snapshot["fsm"].get(peer, "removed")}: the "down" of that session was never reported', peer=peer, at='end')]
    return []


def shrink_candidates(plan: dict):
    from exasim.runner import generic_candidates

    yield from generic_candidates(plan, ['events'])
    if len(plan['neighbors']) > 1:
        p = jclone(plan)
        n = len(p['neighbors']) - 1
        p['neighbors'] = p['neighbors'][:n]
        p['events'] = [e for e in p['events'] if e['peer'] < n]
        yield p
    for i, nb in enumerate(plan['neighbors']):
        for key, val in (('gr', 0), ('spk_accept', 'accept'), ('passive', False)):
            if nb.get(key) != val:
                p = jclone(plan)
                p['neighbors'][i][key] = val
                yield p
    if plan.get('attempts'):
        p = jclone(plan)
        p['attempts'] = 0
        yield p
    k = plan['knobs']
    if k.get('tick') != 0.002 or k.get('drift') or k.get('wall_step'):
        p = jclone(plan)
        p['knobs'].update({'tick': 0.002, 'drift': 0.0, 'wall_step': 0.0})
        yield p
