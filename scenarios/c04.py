"""C04 - Adj-RIB-Out converges: the peer ends up with exactly the intended routes."""

from __future__ import annotations

from scenarios import ribworld as RW
from scenarios.common import R, config_text, jclone, knobs, make_world, result, viol

ID = 'C04'
LEVEL = 'exploration'
LEVEL_TEXT = (
    'seeded exploration of RIB operation histories (announce/withdraw with colliding prefixes and attribute variants, '
    'watchdog, flush, clear, route-refresh, groups) x their interleaving with UPDATE transmission (flush windows, closed TCP '
    'window with the generator half consumed, rate limit, group-updates on/off) through the real API -> RIB -> peer task -> '
    'wire path; oracle at every quiescence: reference-decoded peer table == reported Adj-RIB-Out (== intended for plain '
    'announce/withdraw). Sampling, not proof.'
    " The universe holds the same prefix as unicast, labelled and VPN (two RDs) routes; every route a peer holds must carry the whole attribute set of the operator's variant; some plans configure an address-range neighbor (dynamic peers)."
)
LEVEL_NOTE = 'trusts: simulated TCP/pipe model, reference decoder (refbgp), the text of Route.extensive() for next hop / MED of the reported routes'
DESIGN_REF = 'DESIGN.md section 5, C04'
RULE = (
    'plan = 1-3 neighbors x config routes (watchdog/withdraw markers) x 1-5 bursts of 1-14 API operations over a small universe '
    '(2-6 prefixes x 2-4 attribute variants x next hops x path-ids) with gaps 0..0.3 s and optional send-window stall; non-trivial '
    '= at least one operation landed while an update generator was alive or the peer socket was blocked, or two operations hit '
    'the same key in one burst; distinct = schedule signatures'
)
ASSUMPTIONS = [
    'no session loss in these runs (that is C11); speakers keep sessions alive',
    'intended table judged only for keys whose last operation is a plain announce/withdraw/clear (watchdog semantics are judged via peer table == reported only)',
    'ADD-PATH either negotiated on all neighbors of a run or on none',
]
SHRINK_LISTS = ['bursts']


def counts(tier: str):
    return (500, 70.0) if tier == 'quick' else (30000, 900.0)


def generate(rng, tier: str, index: int) -> dict:
    addpath = rng.chance(0.3)
    ipv6 = rng.chance(0.25)
    nn = rng.choice([1, 1, 2, 2, 3])
    nbrs = RW.gen_neighbors(rng, nn, addpath, ipv6)
    mpls = rng.chance(0.3)
    for nb in nbrs:
        nb['mpls'] = mpls
    # one `neighbor 10.0.1.0/24 { passive; }` block serving two peers that connect in: each gets a peer (and an Adj-RIB-Out) of its own
    ranged = rng.chance(0.12)
    targeted = False
    if ranged:
        # two peers of one range, and a selector naming a peer made from a range, are recorded findings (known_findings.jsonl):
        # most ranged plans stay within what works (one peer, `peer *`)
        nn, targeted = rng.choice([(1, False), (1, False), (1, False), (2, False), (1, True)])
        nbrs = [dict(nbrs[0], idx=i, peer_ip=f'10.0.1.{2 + i}', peer_as=65002, rate_limit=0) for i in range(nn)]
    nvar = rng.randint(2, 4)
    variants = RW.gen_variants(rng, nvar)
    prefixes = rng.sample(RW.API_PREFIXES, rng.randint(2, 5)) + (rng.sample(RW.API_PREFIXES6, 1) if ipv6 else [])
    pids = [None] if not addpath else [None, 1, 2]
    static = []
    for i, p in enumerate(rng.sample(RW.CONF_PREFIXES, rng.randint(0, 4))):
        r = {'p': p, 'nh': rng.choice(['self', '10.0.0.9']), 'v': rng.randint(0, nvar - 1)}
        mark = rng.choice(['', '', 'watchdog dog', 'watchdog dog withdraw', 'watchdog cat'])
        static.append({'route': r, 'mark': mark})

    def rnd_route():
        p = rng.choice(prefixes)
        v6 = ':' in p
        r = {'p': p, 'pid': None if v6 else rng.choice(pids), 'nh': '2001:db8::1' if v6 else rng.choice(RW.NEXTHOPS), 'v': rng.randint(0, nvar - 1)}
        if mpls and not v6 and rng.chance(0.5):
            # the same prefix as a labelled and as a VPN route (two RDs): distinct routes that must never share a slot
            r['pid'] = None
            r['lab'] = 100 + prefixes.index(p)
            if rng.chance(0.5):
                r['rd'] = rng.choice(['65000:1', '65000:2'])
        return r

    bursts = []
    for _ in range(rng.randint(1, 5)):
        ops = []
        big = rng.chance(0.25)
        if big:
            # a long flush: many distinct routes first, so that later ops land inside the window
            for j in range(rng.randint(30, 70)):
                ops.append({'op': 'ann', 'tgt': '*', 'gap': 0.0, 'route': {'p': f'10.{100 + j % 50}.{j}.0/24', 'pid': None, 'nh': '10.0.0.9', 'v': rng.randint(0, nvar - 1)}})
        for _ in range(rng.randint(1, 14)):
            gap = rng.choice([0.0, 0.0, 0.0, 0.001, 0.004, 0.02, 0.1, 0.3])
            tgt = rng.choice(['*', '*', '*', rng.randint(0, nn - 1)])
            if ranged and not targeted:
                tgt = '*'
            k = rng.random()
            if k < 0.5:
                ops.append({'op': 'ann', 'tgt': tgt, 'gap': gap, 'route': rnd_route()})
            elif k < 0.75:
                r = rnd_route()
                ops.append({'op': 'wd', 'tgt': tgt, 'gap': gap, 'route': {k: v for k, v in r.items() if k != 'v'}})
            elif k < 0.82:
                ops.append({'op': rng.choice(['wdog-ann', 'wdog-wd']), 'tgt': tgt, 'gap': gap, 'name': rng.choice(['dog', 'cat'])})
            elif k < 0.88:
                ops.append({'op': 'flush', 'tgt': '*', 'gap': gap})
            elif k < 0.92:
                ops.append({'op': 'clear', 'tgt': '*', 'gap': gap})
            elif k < 0.96:
                ops.append({'op': 'rr', 'nbr': rng.randint(0, nn - 1), 'gap': gap})
            else:
                subs = [{'op': rng.choice(['ann', 'ann', 'wd']), 'route': rnd_route()} for _ in range(rng.randint(2, 4))]
                ops.append({'op': 'group', 'tgt': tgt, 'gap': gap, 'subs': subs})
        stall = None
        if rng.chance(0.35):
            stall = {'nbr': rng.randint(0, nn - 1), 'bytes': rng.choice([0, 10, 40, 100, 300, 1000]), 'dur': rng.choice([0.05, 0.3, 1.0, 2.5])}
        bursts.append({'ops': ops, 'stall': stall})
    return {
        'micro_seed': rng.randint(1, 1 << 48), 'knobs': knobs(rng), 'neighbors': nbrs, 'variants': variants, 'static': static,
        'bursts': bursts, 'chunk': rng.choice([0, 0, 3, 7, 20]), 'range': ranged,
    }  # fmt: skip


def op_text(op: dict, plan: dict) -> str | None:
    nbrs = plan['neighbors']
    sel = '*' if op.get('tgt', '*') == '*' else nbrs[op['tgt']]['peer_ip']
    k = op['op']
    if k == 'ann':
        return f'peer {sel} announce {RW.route_text(op["route"], plan["variants"])}'
    if k == 'wd':
        r = dict(op['route'])
        r['v'] = None
        return f'peer {sel} withdraw {RW.route_text(r, plan["variants"])}'
    if k == 'wdog-ann':
        return f'peer {sel} announce watchdog {op["name"]}'
    if k == 'wdog-wd':
        return f'peer {sel} withdraw watchdog {op["name"]}'
    if k == 'flush':
        return 'rib flush out'  # the v6 grammar has no per-peer form
    if k == 'clear':
        return 'rib clear out'
    if k == 'group':
        parts = []
        for s in op['subs']:
            if s['op'] == 'ann':
                parts.append('announce ' + RW.route_text(s['route'], plan['variants']))
            else:
                r = dict(s['route'])
                r['v'] = None
                parts.append('withdraw ' + RW.route_text(r, plan['variants']))
        return f'peer {sel} group ' + ' ; '.join(parts)
    return None


class Intended:
    """last-operation-wins table for unambiguous operations, per neighbor"""

    def __init__(self, nb: dict) -> None:
        self.nb = nb
        self.t: dict = {}  # key -> ('present', nh, med) | ('absent',) | ('unknown',)

    def hit(self, op, tgt) -> bool:
        return tgt == '*' or tgt == self.nb['idx']

    def announce(self, r: dict, variants) -> None:
        nh = RW.LOCAL if r['nh'] == 'self' else r['nh']
        self.t[RW.rkey(r, self.nb['addpath'])] = ('present', nh, variants[r['v']]['med']) + ((r['lab'],) if r.get('lab') is not None else ())

    def withdraw(self, r: dict) -> None:
        self.t[RW.rkey(r, self.nb['addpath'])] = ('absent',)

    def clear(self) -> None:
        for k in list(self.t):
            self.t[k] = ('absent',)

    def unknown(self, keys) -> None:
        for k in keys:
            self.t[k] = ('unknown',)


def execute(plan: dict) -> dict:
    if plan.get('range'):
        plan = jclone(plan)
        plan.setdefault('knobs', {}).update({'listen_ip': RW.LOCAL, 'listen_port': 1790})
    w = make_world(plan)
    nbrs = plan['neighbors']
    variants = plan['variants']
    static_txt = []
    for s in plan['static']:
        static_txt.append(RW.route_text(s['route'], variants) + (' ' + s['mark'] if s['mark'] else ''))
    speakers = [RW.make_speaker(w, nb) for nb in nbrs]
    if plan.get('range'):
        conf = config_text([{'name': 'h1'}], [RW.neighbor_conf(nbrs[0], static_txt, extra={'peer_ip': '10.0.1.0/24', 'passive': True})])
    else:
        conf = config_text([{'name': 'h1'}], [RW.neighbor_conf(nb, static_txt) for nb in nbrs])
    w.boot(conf)
    if plan.get('range'):

        def knock() -> None:
            for sp in speakers:
                if sp.current() is None:
                    sp.connect_in(RW.LOCAL, 1790)
            w.after(5.0, knock)

        w.at(0.5, knock)
    h = w.procs.helper('h1')
    if plan.get('chunk'):
        h.chunk_plan = [plan['chunk']] * 2000

    intended = [Intended(nb) for nb in nbrs]
    wd_keys = {}
    for s in plan['static']:
        for it in intended:
            k = RW.key_of(s['route']['p'], None, it.nb['addpath'])
            if 'watchdog' in s['mark']:
                wd_keys.setdefault(s['mark'].split()[1], set()).add(k)
                if 'withdraw' in s['mark']:
                    it.t[k] = ('absent',)
                    continue
            it.announce(s['route'], variants)

    probes = {'op_while_generator_alive': 0, 'op_while_socket_blocked': 0, 'same_key_twice_in_burst': 0, 'snapshots': 0, 'snapshots_skipped_not_quiescent': 0, 'route_refresh_sent': 0}
    faults = {'window_stall': 0, 'pipe_chunking': int(bool(plan.get('chunk')))}
    violations: list[dict] = []
    state = {'burst': -1}

    def gen_alive() -> bool:
        for p in w.reactor._peers.values():
            t = p._async_task
            if t is None or p.proto is None:
                continue
            if p.neighbor.rib.outgoing.pending():
                return True
        return w.live_generators > 0

    def blocked() -> bool:
        return any(s._write_waiter is not None for s in w.net.sockets)

    def apply_model(op: dict) -> None:
        k = op['op']
        for it in intended:
            if k == 'rr':
                continue
            if not it.hit(op, op.get('tgt', '*')):
                continue
            if k == 'ann':
                it.announce(op['route'], variants)
            elif k == 'wd':
                it.withdraw(op['route'])
            elif k == 'clear':
                it.clear()
            elif k in ('wdog-ann', 'wdog-wd'):
                it.unknown(wd_keys.get(op['name'], ()))
            elif k == 'group':
                for s in op['subs']:
                    if s['op'] == 'ann':
                        it.announce(s['route'], variants)
                    else:
                        it.withdraw(s['route'])

    def do_op(op: dict) -> None:
        if gen_alive():
            probes['op_while_generator_alive'] += 1
        if blocked():
            probes['op_while_socket_blocked'] += 1
        if op['op'] == 'rr':
            s = speakers[op['nbr']].established()
            if s is not None:
                s.send(R.route_refresh(1, 1))
                probes['route_refresh_sent'] += 1
            return
        text = op_text(op, plan)
        w.rec('op', text=text)
        h.emit(text.encode() + b'\n')
        apply_model(op)

    def snapshot(final: bool = False) -> None:
        if not w.quiescent() or blocked() or not all(sp.established() is not None for sp in speakers):
            probes['snapshots_skipped_not_quiescent'] += 1
            if not final:
                return
            if not all(sp.established() is not None for sp in speakers):
                violations.append(viol('C04/harness-session-lost', 'a session was not established at the final snapshot', states=str([sp.sessions[-1].state if sp.sessions else None for sp in speakers])))
                return
            if not w.quiescent():
                violations.append(viol('C04/never-quiescent', 'the outgoing queue had not drained 25 s after the last operation'))
                return
        probes['snapshots'] += 1
        for i, nb in enumerate(nbrs):
            sess = speakers[i].established()
            peer = w.peer_for(nb['peer_ip'])
            if sess is not None and peer is None:
                violations.append(viol('C04/session-without-neighbor', f'a session with {nb["peer_ip"]} is established but exabgp has no peer for that address (peers: {sorted(str(p.neighbor.session.peer_address) for p in w.reactor._peers.values())})'))
                return
            if sess is None or peer is None:
                continue
            if sess.decode_errors:
                violations.append(viol('C04/undecodable-update', sess.decode_errors[0][:400]))
                return
            pv = RW.peer_view(sess.table)
            probes['labelled_or_vpn_routes_held'] = probes.get('labelled_or_vpn_routes_held', 0) + sum(1 for k in pv if k[1] in (4, 128))
            rep = {k: ((RW.LOCAL if v[0] == 'self' else v[0]),) + tuple(v[1:]) for k, v in RW.reported_table(peer.neighbor, nb['addpath']).items()}
            if pv != rep:
                d = RW.diff_tables(pv, rep, 'peer', 'reported')
                violations.append(
                    viol(
                        'C04/peer-table-differs-from-reported',
                        f'neighbor {nb["peer_ip"]} after burst {state["burst"]}: ' + '; '.join(d),
                        kind='stale' if any('reported=None' not in x and 'peer=None' not in x for x in d) else 'missing-or-extra',
                    )
                )
                return
            bad = RW.attrs_mismatch(sess.table, variants, nb)
            if bad:
                violations.append(viol('C04/attributes-differ-from-request', f'neighbor {nb["peer_ip"]} after burst {state["burst"]}: {bad}'))
                return
            for k, want in intended[i].t.items():
                if want[0] == 'unknown':
                    continue
                have = pv.get(k)
                if want[0] == 'absent' and have is not None:
                    violations.append(viol('C04/withdrawn-route-present', f'neighbor {nb["peer_ip"]}: {RW.fmt_key(k)} was withdrawn last but the peer holds {have}'))
                    return
                if want[0] == 'present' and have != tuple(want[1:]):
                    violations.append(viol('C04/stale-or-missing-announce', f'neighbor {nb["peer_ip"]}: {RW.fmt_key(k)} last announced as {want[1:]} but the peer holds {have}'))
                    return

    # schedule
    t = 2.0
    for bi, b in enumerate(plan['bursts']):
        start = t
        seen_keys = set()
        for op in b['ops']:
            if op['op'] in ('ann', 'wd'):
                kk = (op['route']['p'], op['route'].get('pid'), op['route'].get('lab'), op['route'].get('rd'))
                if kk in seen_keys:
                    probes['same_key_twice_in_burst'] += 1
                seen_keys.add(kk)
        if b.get('stall'):
            st = b['stall']

            def close_window(st=st) -> None:
                s = speakers[st['nbr'] % len(speakers)].established()
                if s is not None:
                    s.conn.set_window(st['bytes'])
                    faults['window_stall'] += 1

            def open_window(st=st) -> None:
                for sp in speakers:
                    for s in sp.sessions:
                        s.conn.set_window(None)

            w.at(start, close_window)
            w.at(start + st['dur'], open_window)
        for op in b['ops']:
            t += op.get('gap', 0.0)
            w.at(t, lambda op=op: do_op(op))
        t += (b['stall']['dur'] if b.get('stall') else 0.0) + 3.0 + len(b['ops']) * 0.05
        if any(nb.get('rate_limit') for nb in nbrs):
            t += len(b['ops']) * 0.1 + 3.0

        def snap(bi=bi) -> None:
            state['burst'] = bi
            if not violations:
                snapshot()

        w.at(t, snap)
        t += 0.2
    t += 10.0
    fin = {'tries': 0, 'end': t}

    def final() -> None:
        state['burst'] = 'final'
        if violations:
            return
        ready = w.quiescent() and not blocked() and all(sp.established() is not None for sp in speakers)
        fin['tries'] += 1
        if not ready and fin['tries'] < 80:
            # liveness is judged with a generous bound (rate-limited neighbors trickle one message per 0.1 s)
            w.after(5.0, final)
            return
        snapshot(final=True)
        w.after(0.1, lambda: w.signal('SHUTDOWN'))

    w.at(t, final)
    w.run(until=t + 80 * 5.0 + 1.0)
    if plan.get('range') and violations and violations[0]['class'] in ('C04/peer-table-differs-from-reported', 'C04/stale-or-missing-announce', 'C04/withdrawn-route-present', 'C04/never-quiescent'):
        # known finding (DESIGN.md 0.5): the peers made for the connections of one address range are shallow copies of the
        # range's neighbor and share its RIB object; whichever peer runs its update generator first takes the queued routes
        ribs = [id(p.neighbor.rib.outgoing) for p in w.reactor._peers.values() if p.neighbor.ephemeral]
        v0 = violations[0]
        named = [op for b in plan['bursts'] for op in b['ops'] if isinstance(op.get('tgt'), int)]
        if len(ribs) > 1 and len(set(ribs)) == 1:
            violations[0] = viol('C04/range-peers-share-adj-rib-out', f'two peers of the range 10.0.1.0/24 share one Adj-RIB-Out object; seen as {v0["class"]}: {v0["detail"]}', shared_rib=True, seen_as=v0['class'])
        elif named and not any(n.startswith('neighbor 10.0.1.2 ') for n in w.reactor.configuration.neighbors):
            violations[0] = viol('C04/range-peer-named-by-selector', f'`peer 10.0.1.2 ...` names a peer made from the range 10.0.1.0/24: acknowledged, applied to nobody (the configuration does not know the peer); seen as {v0["class"]}: {v0["detail"]}', dynamic_peer_selected=True, seen_as=v0['class'])
    nontrivial = (probes['op_while_generator_alive'] + probes['op_while_socket_blocked'] + probes['same_key_twice_in_burst']) > 0
    return result(w, violations[:1], faults=faults, probes=probes, nontrivial=nontrivial, sample={'neighbors': len(nbrs), 'ops': sum(len(b['ops']) for b in plan['bursts'])})


def shrink_candidates(plan: dict):
    from exasim.runner import generic_candidates

    yield from generic_candidates(plan, ['bursts'])
    for bi, b in enumerate(plan['bursts']):
        for c in generic_candidates(b, ['ops']):
            p = jclone(plan)
            p['bursts'][bi] = c
            yield p
        if b.get('stall'):
            p = jclone(plan)
            p['bursts'][bi]['stall'] = None
            yield p
    if len(plan['neighbors']) > 1:
        p = jclone(plan)
        p['neighbors'] = p['neighbors'][:-1]
        n = len(p['neighbors'])
        for b in p['bursts']:
            if b.get('stall'):
                b['stall']['nbr'] %= n
            for op in b['ops']:
                if isinstance(op.get('tgt'), int):
                    op['tgt'] %= n
                if 'nbr' in op:
                    op['nbr'] %= n
        yield p
    if plan['static']:
        yield from generic_candidates(plan, ['static'])
    if plan.get('chunk'):
        p = jclone(plan)
        p['chunk'] = 0
        yield p
    k = plan['knobs']
    if k.get('tick') != 0.002 or k.get('drift') or k.get('wall_step'):
        p = jclone(plan)
        p['knobs'].update({'tick': 0.002, 'drift': 0.0, 'wall_step': 0.0})
        yield p
    for nb_i, nb in enumerate(plan['neighbors']):
        if nb.get('rate_limit') or not nb.get('group_updates'):
            p = jclone(plan)
            p['neighbors'][nb_i]['rate_limit'] = 0
            p['neighbors'][nb_i]['group_updates'] = True
            yield p
