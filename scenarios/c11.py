"""C11 - after any session loss the peer is fully resynchronised."""

from __future__ import annotations

from scenarios import c04 as C4
from scenarios import ribworld as RW
from scenarios.common import R, config_text, jclone, knobs, make_world, result, viol

ID = 'C11'
LEVEL = 'fault_enumeration'
LEVEL_TEXT = (
    'session-loss fault classes {reset, FIN, NOTIFICATION, hold-timer silence, loss during establishment (after OPEN rx / '
    'before KEEPALIVE), partition} x generator state {idle, half-consumed batch, socket blocked} are each hit many times '
    '(counted in the evidence) with seeded RIB histories before, during and after the loss; on the first session that '
    'establishes afterwards the reference-decoded peer table must equal the reported Adj-RIB-Out and the intended table, '
    'with exactly one End-of-RIB per negotiated family after the routes.'
    ' Labelled and VPN routes with their End-of-RIB markers; whole attribute sets compared.'
)
LEVEL_NOTE = 'trusts: simulated TCP model (FIN queued behind in-flight bytes, RST discards), reference decoder; establishment itself is not judged (conditional property)'
DESIGN_REF = 'DESIGN.md section 5, C11'
RULE = (
    'plan = C04 world (adj-rib-out kept) + 1-3 phases of (operations, one session-loss fault with its trigger, operations while '
    'down, down time); non-trivial = a loss fired and a later session established and was judged; distinct = schedule signatures'
)
ASSUMPTIONS = [
    'adj-rib-out true in every run (the property is conditional on it)',
    're-establishment time is reported as a probe, not judged',
    'operations issued within 1 s of the establishment are treated as racing it (their keys are not judged at the End-of-RIB point, only at final quiescence)',
]

LOSS_KINDS = ['reset-mid-batch', 'close-mid-batch', 'reset-idle', 'close-idle', 'notification', 'silence', 'estab-after-open', 'estab-before-ka', 'partition', 'blocked-then-reset']


def counts(tier: str):
    return (800, 75.0) if tier == 'quick' else (20000, 900.0)


def generate(rng, tier: str, index: int) -> dict:
    addpath = rng.chance(0.25)
    ipv6 = rng.chance(0.3)
    nn = rng.choice([1, 1, 2])
    nbrs = RW.gen_neighbors(rng, nn, addpath, ipv6)
    for nb in nbrs:
        nb['hold'] = rng.choice([3, 6, 9, 30])
        nb['gr'] = rng.choice([0, 0, 120])
        nb['rate_limit'] = 0
    nvar = rng.randint(2, 4)
    variants = RW.gen_variants(rng, nvar)
    prefixes = rng.sample(RW.API_PREFIXES, rng.randint(2, 5)) + (rng.sample(RW.API_PREFIXES6, 1) if ipv6 else [])
    pids = [None] if not addpath else [None, 1, 2]
    static = []
    for p in rng.sample(RW.CONF_PREFIXES, rng.randint(0, 4)):
        static.append({'route': {'p': p, 'nh': rng.choice(['self', '10.0.0.9']), 'v': rng.randint(0, nvar - 1)}, 'mark': rng.choice(['', '', '', 'watchdog dog'])})

    mpls = rng.chance(0.3)
    for nb in nbrs:
        nb['mpls'] = mpls

    def rnd_route():
        p = rng.choice(prefixes)
        v6 = ':' in p
        r = {'p': p, 'pid': None if v6 else rng.choice(pids), 'nh': '2001:db8::1' if v6 else rng.choice(RW.NEXTHOPS), 'v': rng.randint(0, nvar - 1)}
        if mpls and not v6 and rng.chance(0.5):
            r['pid'] = None
            r['lab'] = 100 + prefixes.index(p)
            if rng.chance(0.5):
                r['rd'] = rng.choice(['65000:1', '65000:2'])
        return r

    def rnd_ops(n, allow_big=True):
        ops = []
        if allow_big and rng.chance(0.5):
            base = rng.randint(0, 40)
            for j in range(rng.randint(20, 60)):
                ops.append({'op': 'ann', 'tgt': '*', 'gap': 0.0, 'route': {'p': f'10.{100 + (base + j) % 50}.{(base + j) % 250}.0/24', 'pid': None, 'nh': '10.0.0.9', 'v': rng.randint(0, nvar - 1)}})
        for _ in range(n):
            gap = rng.choice([0.0, 0.0, 0.002, 0.02, 0.1, 0.4])
            k = rng.random()
            if k < 0.55:
                ops.append({'op': 'ann', 'tgt': '*', 'gap': gap, 'route': rnd_route()})
            elif k < 0.85:
                r = rnd_route()
                ops.append({'op': 'wd', 'tgt': '*', 'gap': gap, 'route': {k: v for k, v in r.items() if k != 'v'}})
            elif k < 0.9:
                ops.append({'op': 'flush', 'tgt': '*', 'gap': gap})
            elif k < 0.94:
                ops.append({'op': 'clear', 'tgt': '*', 'gap': gap})
            else:
                ops.append({'op': rng.choice(['wdog-ann', 'wdog-wd']), 'tgt': '*', 'gap': gap, 'name': 'dog'})
        return ops

    phases = []
    for _ in range(rng.randint(1, 3)):
        kind = rng.choice(LOSS_KINDS)
        phases.append(
            {
                'before': rnd_ops(rng.randint(0, 8)),
                'loss': {'kind': kind, 'nbr': rng.randint(0, nn - 1), 'after_updates': rng.randint(1, 30), 'repeat': rng.randint(1, 3), 'window': rng.choice([0, 50, 200, 1000])},
                'down': rnd_ops(rng.randint(0, 6), allow_big=False),
                'down_time': rng.choice([0.0, 0.5, 3.0, 8.0]),
            }
        )
    return {
        'micro_seed': rng.randint(1, 1 << 48), 'knobs': knobs(rng), 'neighbors': nbrs, 'variants': variants, 'static': static,
        'phases': phases, 'after': rnd_ops(rng.randint(0, 5), allow_big=False), 'chunk': rng.choice([0, 0, 5, 30]),
    }  # fmt: skip


def execute(plan: dict) -> dict:
    w = make_world(plan)
    nbrs = plan['neighbors']
    variants = plan['variants']
    static_txt = [RW.route_text(s['route'], variants) + (' ' + s['mark'] if s['mark'] else '') for s in plan['static']]
    speakers = [RW.make_speaker(w, nb) for nb in nbrs]
    conf = config_text([{'name': 'h1'}], [RW.neighbor_conf(nb, static_txt) for nb in nbrs])
    w.boot(conf)
    h = w.procs.helper('h1')
    if plan.get('chunk'):
        h.chunk_plan = [plan['chunk']] * 3000

    intended = [C4.Intended(nb) for nb in nbrs]
    wd_keys: dict = {}
    for s in plan['static']:
        for it in intended:
            k = RW.key_of(s['route']['p'], None, it.nb['addpath'])
            if 'watchdog' in s['mark']:
                wd_keys.setdefault(s['mark'].split()[1], set()).add(k)
            it.announce(s['route'], variants)
    touched: list[dict] = [dict() for _ in nbrs]  # key -> last op time

    probes = {f'loss:{k}': 0 for k in LOSS_KINDS}
    probes.update({'loss_with_generator_alive': 0, 'loss_with_socket_blocked': 0, 'ops_while_down': 0, 'sessions_judged': 0, 'no_reestablishment': 0, 'reestablish_s_max_x10': 0, 'eor_point_checks': 0})
    faults = {k: 0 for k in ('reset', 'fin', 'notification', 'silence', 'estab_abort', 'partition', 'window_stall')}
    violations: list[dict] = []

    def blocked() -> bool:
        return any(s._write_waiter is not None for s in w.net.sockets)

    op_log: list[dict] = []

    def do_op(op: dict) -> None:
        text = C4.op_text(op, plan)
        w.rec('op', text=text)
        h.emit(text.encode() + b'\n')
        now = w.loop.mono
        op_log.append(op)
        k = op['op']
        for i, it in enumerate(intended):
            if k == 'ann':
                it.announce(op['route'], variants)
                touched[i][RW.rkey(op['route'], it.nb['addpath'])] = now
            elif k == 'wd':
                it.withdraw(op['route'])
                touched[i][RW.rkey(op['route'], it.nb['addpath'])] = now
            elif k == 'clear':
                it.clear()
                for key in it.t:
                    touched[i][key] = now
            elif k in ('wdog-ann', 'wdog-wd'):
                it.unknown(wd_keys.get(op['name'], ()))
                for key in wd_keys.get(op['name'], ()):
                    touched[i][key] = now

    def emit_ops(ops, t0: float) -> float:
        t = t0
        for op in ops:
            t += op.get('gap', 0.0)
            w.at(t, lambda op=op: do_op(op))
        return t

    st = {'phase': -1, 'state': 'boot', 'deadline': 0.0, 'loss_at': None, 'loss_done': False, 'armed': None, 'estab_fail': 0, 'stable': 0, 'ops_end': 0.0}

    def all_up() -> bool:
        return all(sp.established() is not None for sp in speakers)

    def do_loss(kind: str, sess, note: str = '') -> None:
        if st['loss_done'] or sess is None or sess.state == 'closed':
            return
        st['loss_done'] = True
        st['loss_at'] = w.loop.mono
        probes[f'loss:{note or kind}' if f'loss:{note}' in probes else f'loss:{kind}'] += 1
        if w.live_generators > 0 or any(p.neighbor.rib.outgoing.pending() for p in w.reactor._peers.values()):
            probes['loss_with_generator_alive'] += 1
        if blocked():
            probes['loss_with_socket_blocked'] += 1
        w.rec('fault', kind=kind, note=note)
        if kind in ('reset-mid-batch', 'reset-idle', 'blocked-then-reset'):
            faults['reset'] += 1
            sess.reset()
        elif kind in ('close-mid-batch', 'close-idle'):
            faults['fin'] += 1
            sess.close()
        elif kind == 'notification':
            faults['notification'] += 1
            sess.send(R.notification(6, 4, b''))
            sess.close()

    def start_phase() -> None:
        st['phase'] += 1
        if st['phase'] >= len(plan['phases']):
            st['state'] = 'final-ops'
            st['ops_end'] = emit_ops(plan['after'], w.loop.mono + 0.1)
            st['stable'] = 0
            return
        ph = plan['phases'][st['phase']]
        loss = ph['loss']
        sp = speakers[loss['nbr'] % len(speakers)]
        sess = sp.established()
        st.update({'state': 'await-loss', 'loss_done': False, 'loss_at': None, 'deadline': w.loop.mono + 12.0, 'estab_fail': 0})
        kind = loss['kind']
        base = len(sess.updates) if sess else 0
        if kind == 'blocked-then-reset' and sess is not None:
            sess.conn.set_window(loss['window'])
            faults['window_stall'] += 1
        end = emit_ops(ph['before'], w.loop.mono + 0.05)
        if kind in ('reset-mid-batch', 'close-mid-batch'):
            st['armed'] = (sp, sess, base + loss['after_updates'], kind)
        elif kind in ('reset-idle', 'close-idle', 'notification'):
            w.at(end + 2.5, lambda: do_loss(kind, sess))
        elif kind == 'blocked-then-reset':
            w.at(end + 1.0, lambda: do_loss(kind, sess))
        elif kind == 'silence':
            faults['silence'] += 1
            sp.silent = True  # no more keepalives: exabgp's hold timer must fire
            st['deadline'] = w.loop.mono + 60.0
        elif kind in ('estab-after-open', 'estab-before-ka'):
            st['estab_fail'] = loss['repeat']
            sp.auto_keepalive = kind != 'estab-before-ka'
            w.at(end + 1.0, lambda: do_loss('reset-idle', sess, note='to force a new establishment'))
        elif kind == 'partition':
            faults['partition'] += 1
            for s2 in speakers:
                s2.accept_mode = 'blackhole' if loss['repeat'] == 1 else 'refuse'
            w.at(end + 1.0, lambda: do_loss('reset-idle', sess, note='partition'))

    def on_message(sp):
        def hook(sess, mtype, body) -> None:
            a = st['armed']
            if a is not None and a[0] is sp and a[1] is sess and mtype == R.UPDATE and len(sess.updates) >= a[2]:
                st['armed'] = None
                do_loss(a[3], sess)
            # establishment-time faults
            if st['estab_fail'] > 0 and st['state'] in ('await-loss', 'await-up') and st['loss_done']:
                ph = plan['phases'][st['phase']]
                if speakers[ph['loss']['nbr'] % len(speakers)] is sp:
                    kind = ph['loss']['kind']
                    if (kind == 'estab-after-open' and mtype == R.OPEN) or (kind == 'estab-before-ka' and mtype == R.KEEPALIVE and sess.state != 'established'):
                        st['estab_fail'] -= 1
                        faults['estab_abort'] += 1
                        probes[f'loss:{kind}'] += 1
                        w.rec('fault', kind=kind)
                        sess.close() if st['estab_fail'] % 2 else sess.reset()
                        if st['estab_fail'] == 0:
                            sp.auto_keepalive = True

        return hook

    estab_snap: dict = {}

    def on_established(i):
        def hook(sess) -> None:
            estab_snap[(i, sess.index)] = (w.loop.mono, dict(intended[i].t))

        return hook

    def on_closed(sp):
        def hook(sess) -> None:
            if sp.silent and sess.closed_by == 'exabgp':
                # the hold timer fired: that was the loss
                sp.silent = False
                if st['state'] == 'await-loss' and not st['loss_done']:
                    st['loss_done'] = True
                    st['loss_at'] = w.loop.mono
                    probes['loss:silence'] += 1

        return hook

    for i, sp in enumerate(speakers):
        sp.on_message.append(on_message(sp))
        sp.on_established.append(on_established(i))
        sp.on_closed.append(on_closed(sp))

    def judge_sessions(final: bool) -> None:
        for i, nb in enumerate(nbrs):
            sp = speakers[i]
            sess = sp.established()
            peer = w.peer_for(nb['peer_ip'])
            if sess is None or peer is None:
                continue
            if getattr(sess, '_judged', False) and not final:
                continue
            sess._judged = True
            probes['sessions_judged'] += 1
            if sess.decode_errors:
                violations.append(viol('C11/undecodable-update', sess.decode_errors[0][:400]))
                return
            fams = sorted(RW.families_of(nb))
            if sorted(sess.table.eors) != fams:
                violations.append(viol('C11/end-of-rib-markers', f'neighbor {nb["peer_ip"]} session #{sess.index}: End-of-RIB received for {sorted(sess.table.eors)}, negotiated families {fams}', got=str(sorted(sess.table.eors)), want=str(fams)))
                return
            pv = RW.peer_view(sess.table)
            rep = {k: ((RW.LOCAL if v[0] == 'self' else v[0]),) + tuple(v[1:]) for k, v in RW.reported_table(peer.neighbor, nb['addpath']).items()}
            if pv != rep:
                d = RW.diff_tables(pv, rep, 'peer', 'reported')
                violations.append(viol('C11/peer-table-differs-from-reported', f'neighbor {nb["peer_ip"]} session #{sess.index} (after {sess.index} earlier sessions): ' + '; '.join(d), session=sess.index))
                return
            bad = RW.attrs_mismatch(sess.table, variants, nb)
            if bad:
                violations.append(viol('C11/attributes-differ-from-request', f'neighbor {nb["peer_ip"]} session #{sess.index}: {bad}', session=sess.index))
                return
            for k, want in intended[i].t.items():
                if want[0] == 'unknown':
                    continue
                have = pv.get(k)
                if want[0] == 'absent' and have is not None:
                    violations.append(viol('C11/withdrawn-route-readvertised', f'neighbor {nb["peer_ip"]} session #{sess.index}: {RW.fmt_key(k)} was withdrawn (last op) but the peer holds {have}'))
                    return
                if want[0] == 'present' and have != tuple(want[1:]):
                    violations.append(viol('C11/route-not-resynchronised', f'neighbor {nb["peer_ip"]} session #{sess.index}: {RW.fmt_key(k)} intended {want[1:]} but the peer holds {have}'))
                    return
            # the End-of-RIB point: everything that was in the table at establishment and untouched since precedes the markers
            snap = estab_snap.get((i, sess.index))
            if snap is not None and sess.index > 0:
                t_est = snap[0]
                # rebuild the table as of the establishment from the commands exabgp had *processed* by then
                # (the n-th command written by the helper is the n-th API.process call)
                it0 = C4.Intended(nb)
                for s0 in plan['static']:
                    it0.announce(s0['route'], variants)
                late: set = set()
                for n, op in enumerate(op_log):
                    t_proc = w.api_log[n][1] if n < len(w.api_log) else 1e18
                    keys = []
                    k0 = op['op']
                    if k0 in ('ann', 'wd'):
                        keys = [RW.rkey(op['route'], nb['addpath'])]
                    elif k0 == 'clear':
                        keys = list(it0.t) + [RW.rkey(o['route'], nb['addpath']) for o in op_log if o['op'] == 'ann']
                    elif k0 in ('wdog-ann', 'wdog-wd'):
                        keys = list(wd_keys.get(op['name'], ()))
                    if t_proc <= t_est - 1.0:
                        if k0 == 'ann':
                            it0.announce(op['route'], variants)
                        elif k0 == 'wd':
                            it0.withdraw(op['route'])
                        elif k0 == 'clear':
                            it0.clear()
                        elif k0 in ('wdog-ann', 'wdog-wd'):
                            it0.unknown(keys)
                    else:
                        late.update(keys)
                table0 = it0.t
                probes['eor_point_checks'] += 1
                last_eor = max((j for j, (_, _, d) in enumerate(sess.updates) if d is not None and d['eor'] is not None), default=-1)
                before = R.PeerTable()
                for _, body, d in sess.updates[: last_eor + 1]:
                    if d is not None:
                        before.apply(body, sess.ctx)
                bv = RW.peer_view(before)
                for k, want in table0.items():
                    if k in late:
                        continue
                    if want[0] == 'present' and bv.get(k) != tuple(want[1:]):
                        violations.append(viol('C11/route-after-end-of-rib', f'neighbor {nb["peer_ip"]} session #{sess.index}: {RW.fmt_key(k)} {want[1:]} was in the Adj-RIB-Out at establishment but had not been advertised when the last End-of-RIB was sent (had {bv.get(k)})'))
                        return
                    if want[0] == 'absent':
                        for _, body, d in sess.updates:
                            if d is not None and any(R.route_key(n) == k for n, _ in d['announce']):
                                violations.append(viol('C11/withdrawn-route-readvertised', f'neighbor {nb["peer_ip"]} session #{sess.index}: {RW.fmt_key(k)} was withdrawn while the session was down and is announced on the new session'))
                                return

    def driver() -> None:
        if violations:
            w.signal('SHUTDOWN')
            return
        now = w.loop.mono
        s = st['state']
        if s == 'boot':
            if all_up() and w.quiescent() and now > 1.5:
                start_phase()
        elif s == 'await-loss':
            if st['loss_done']:
                ph = plan['phases'][st['phase']]
                probes['ops_while_down'] += len(ph['down'])
                emit_ops(ph['down'], now + 0.05)
                if ph['loss']['kind'] != 'partition':
                    for sp in speakers:
                        if ph['down_time'] > 0:
                            sp.accept_mode = 'refuse'
                heal = now + ph['down_time'] + (6.0 if ph['loss']['kind'] == 'partition' else 0.0)

                def healed() -> None:
                    for sp in speakers:
                        sp.accept_mode = 'accept'
                        sp.silent = False
                    for sp in speakers:
                        for ss in sp.sessions:
                            ss.conn.set_window(None)
                    w.rec('faults-stop')

                w.at(heal, healed)
                st.update({'state': 'await-up', 'deadline': heal + 200.0, 'heal': heal, 'stable': 0})
            elif now > st['deadline']:
                # the trigger never fired (e.g. fewer updates than expected): lose the session now
                ph = plan['phases'][st['phase']]
                sp = speakers[ph['loss']['nbr'] % len(speakers)]
                st['armed'] = None
                sp.silent = False
                if sp.established() is not None:
                    do_loss('reset-idle', sp.established(), note='fallback')
                else:
                    st['loss_done'] = True
                    st['loss_at'] = now
        elif s == 'await-up':
            if now >= st['heal'] and all_up() and w.quiescent() and not blocked():
                st['stable'] += 1
                if st['stable'] >= 3:
                    up = max(sp.established().established_at for sp in speakers)
                    probes['reestablish_s_max_x10'] = max(probes['reestablish_s_max_x10'], int(10 * (up - st['heal'])))
                    judge_sessions(final=False)
                    if not violations:
                        start_phase()
            else:
                st['stable'] = 0
                if now > st['deadline']:
                    probes['no_reestablishment'] += 1
                    w.signal('SHUTDOWN')
                    return
        elif s == 'final-ops':
            if now > st['ops_end'] + 1.0 and all_up() and w.quiescent() and not blocked():
                st['stable'] += 1
                if st['stable'] >= 3:
                    judge_sessions(final=True)
                    w.signal('SHUTDOWN')
                    return
            else:
                st['stable'] = 0
                if now > st['ops_end'] + 250.0:
                    if all_up():
                        violations.append(viol('C11/never-quiescent', 'sessions are up but the outgoing queue never drained within 250 s of the last operation'))
                    else:
                        probes['no_reestablishment'] += 1
                    w.signal('SHUTDOWN')
                    return
        w.after(0.5, driver)

    w.at(1.0, driver)
    w.run(until=1500.0)
    nontrivial = probes['sessions_judged'] > len(nbrs) or any(v for k, v in probes.items() if k.startswith('loss:'))
    return result(w, violations[:1], faults=faults, probes=probes, nontrivial=bool(nontrivial), sample={'phases': [p['loss']['kind'] for p in plan['phases']], 'neighbors': len(nbrs)})


def shrink_candidates(plan: dict):
    from exasim.runner import generic_candidates

    yield from generic_candidates(plan, ['phases'])
    yield from generic_candidates(plan, ['after'])
    for pi, ph in enumerate(plan['phases']):
        for key in ('before', 'down'):
            for c in generic_candidates(ph, [key]):
                p = jclone(plan)
                p['phases'][pi] = c
                yield p
        if ph['down_time']:
            p = jclone(plan)
            p['phases'][pi]['down_time'] = 0.0
            yield p
        if ph['loss']['kind'] not in ('reset-idle',):
            p = jclone(plan)
            p['phases'][pi]['loss']['kind'] = 'reset-idle'
            yield p
    if len(plan['neighbors']) > 1:
        p = jclone(plan)
        p['neighbors'] = p['neighbors'][:1]
        for ph in p['phases']:
            ph['loss']['nbr'] = 0
        yield p
    if plan['static']:
        yield from generic_candidates(plan, ['static'])
    if plan.get('chunk'):
        p = jclone(plan)
        p['chunk'] = 0
        yield p
    k = plan['knobs']
    if k.get('tick') != 0.002 or k.get('drift') or k.get('wall_step'):
        p = jclone(plan)
        p['knobs'].update({'tick': 0.002, 'drift': 0.0, 'wall_step': 0.0})
        yield p
    for i, nb in enumerate(plan['neighbors']):
        if nb.get('gr') or nb.get('addpath') or nb.get('ipv6'):
            p = jclone(plan)
            p['neighbors'][i]['gr'] = 0
            yield p
