"""Shared pieces for scenario modules: configuration text builder, world construction from plan
knobs, result assembly."""

from __future__ import annotations

import json
import os
import sys

sys.path.insert(0, os.path.dirname(os.path.dirname(os.path.abspath(__file__))))

import refbgp as R  # noqa: E402
from exasim.speaker import Speaker  # noqa: E402
from exasim.world import World  # noqa: E402

FAM_TEXT = {
    (1, 1): 'ipv4 unicast', (1, 2): 'ipv4 multicast', (1, 4): 'ipv4 nlri-mpls', (1, 128): 'ipv4 mpls-vpn', (1, 133): 'ipv4 flow',
    (1, 134): 'ipv4 flow-vpn', (2, 1): 'ipv6 unicast', (2, 2): 'ipv6 multicast', (2, 4): 'ipv6 nlri-mpls', (2, 128): 'ipv6 mpls-vpn',
    (2, 133): 'ipv6 flow', (2, 134): 'ipv6 flow-vpn', (25, 65): 'l2vpn vpls',
}  # fmt: skip


def neighbor_block(n: dict) -> str:
    """n: peer_ip, local_ip, local_as, peer_as, router_id, hold, families[(afi,safi)], passive, listen,
    caps{asn4, extended_message, route_refresh, graceful_restart, add_path, nexthop, operational, ...},
    addpath_families, api{processes, options}, static[str], extra[str]"""
    out = [f'neighbor {n["peer_ip"]} {{']
    out.append(f'    router-id {n.get("router_id", n["local_ip"] if ":" not in n["local_ip"] else "10.255.0.1")};')
    out.append(f'    local-address {n["local_ip"]};')
    out.append(f'    local-as {n["local_as"]};')
    out.append(f'    peer-as {n["peer_as"]};')
    if 'hold' in n:
        out.append(f'    hold-time {n["hold"]};')
    for key in ('passive', 'group-updates', 'adj-rib-out', 'adj-rib-in', 'manual-eor', 'auto-flush'):
        if key in n:
            out.append(f'    {key} {"true" if n[key] else "false"};')
    for key in ('listen', 'connect', 'rate-limit', 'host-name', 'domain-name', 'description'):
        if key in n:
            out.append(f'    {key} {n[key]};')
    fams = n.get('families')
    if fams:
        out.append('    family {')
        for f in fams:
            out.append(f'        {FAM_TEXT[tuple(f)]};')
        out.append('    }')
    caps = n.get('caps')
    if caps:
        out.append('    capability {')
        for k, v in caps.items():
            if isinstance(v, bool):
                v = 'enable' if v else 'disable'
            out.append(f'        {k} {v};')
        out.append('    }')
    apf = n.get('addpath_families')
    if apf:
        out.append('    add-path {')
        for f in apf:
            lim = (n.get('addpath_limits') or {}).get(FAM_TEXT[tuple(f)])
            out.append(f'        {FAM_TEXT[tuple(f)]}{f" limit {lim}" if lim else ""};')
        out.append('    }')
    nh = n.get('nexthop')
    if nh:
        out.append('    nexthop {')
        for line in nh:
            out.append(f'        {line};')
        out.append('    }')
    api = n.get('api')
    if api:
        out.append(f'    api api-{n["peer_ip"].replace(".", "-").replace(":", "-").replace("/", "-")} {{')
        out.append(f'        processes [ {" ".join(api["processes"])} ];')
        for opt in api.get('options', []):
            out.append(f'        {opt};')
        for way in ('receive', 'send'):
            if api.get(way):
                out.append(f'        {way} {{')
                for o in api[way]:
                    out.append(f'            {o};')
                out.append('        }')
        out.append('    }')
    static = n.get('static')
    if static:
        out.append('    static {')
        for r in static:
            out.append(f'        {r}' + ('' if r.rstrip().endswith('}') else ';'))  # a nested `route <prefix> { ... }` block takes no semicolon
        out.append('    }')
    for line in n.get('extra', []):
        out.append('    ' + line)
    out.append('}')
    return '\n'.join(out) + '\n'


def process_block(name: str, encoder: str = 'json', extra: list[str] | None = None) -> str:
    lines = [f'process {name} {{', f'    run /bin/true {name};', f'    encoder {encoder};']
    for e in extra or []:
        lines.append(f'    {e};')
    lines.append('}')
    return '\n'.join(lines) + '\n'


def config_text(processes: list[dict], neighbors: list[dict]) -> str:
    return ''.join(process_block(p['name'], p.get('encoder', 'json'), p.get('extra')) for p in processes) + ''.join(neighbor_block(n) for n in neighbors)


def speaker_caps(spec: dict) -> list[tuple[int, bytes]]:
    """spec: families, asn, asn4, refresh, enh_refresh, extmsg, addpath[(afi,safi,mode)], nexthop[(afi,safi,nhafi)], gr"""
    caps = [R.cap_mp(a, s) for a, s in spec.get('families', [(1, 1)])]
    if spec.get('refresh', True):
        caps.append(R.cap_refresh())
    if spec.get('enh_refresh'):
        caps.append(R.cap_enh_refresh())
    if spec.get('asn4', True):
        caps.append(R.cap_asn4(spec['asn']))
    if spec.get('extmsg'):
        caps.append(R.cap_extmsg())
    if spec.get('addpath'):
        caps.append(R.cap_addpath([tuple(x) for x in spec['addpath']]))
    if spec.get('nexthop'):
        caps.append(R.cap_nexthop([tuple(x) for x in spec['nexthop']]))
    if spec.get('gr') is not None:
        caps.append(R.cap_gr(spec['gr']))
    return caps


def make_world(plan: dict, **kw) -> World:
    k = plan.get('knobs', {})
    return World(
        micro_seed=plan.get('micro_seed', 1),
        tick=k.get('tick', 0.002),
        drift=k.get('drift', 0.0),
        wall_step=k.get('wall_step', 0.0),
        max_passes=k.get('max_passes', 400_000),
        max_time=k.get('max_time', 900.0),
        listen_ip=k.get('listen_ip'),
        listen_port=k.get('listen_port', 1790),
        env=k.get('env'),
        **kw,
    )


def knobs(rng, **over) -> dict:
    k = {
        'tick': rng.choice([0.0005, 0.001, 0.002, 0.002, 0.005, 0.01, 0.02]),
        'drift': rng.choice([0.0, 0.0, 0.0002, -0.0002, 0.0005, -0.0005]),
        'wall_step': rng.choice([0.0, 0.0, 0.3, 0.7, 0.999]),
    }
    k.update(over)
    return k


def result(world: World, violations: list[dict], faults: dict | None = None, probes: dict | None = None, nontrivial: bool = True, sample: dict | None = None) -> dict:
    if world.ended == 'exit' and world.early_exit and not getattr(world, 'allow_early_exit', False):
        raise RuntimeError(f'reactor exited early (code {world.exit_code}) at t={world.loop.mono:.3f}: ' + '; '.join(l[3][:300] for l in world.logs[-3:]))
    if world.ended == 'crash':
        violations = list(violations) + [viol('reactor-crash', 'the reactor main coroutine raised: ' + (world.crash or '')[-1200:], where=(world.crash or '').strip().splitlines()[-1][:200] if world.crash else '')]
    return {
        'violations': violations,
        'faults': faults or {},
        'probes': probes or {},
        'sim_s': world.loop.mono,
        'passes': world.loop.passes,
        'digest': world.digest(),
        'signature': world.signature(),
        'nontrivial': nontrivial,
        'sample': sample or {},
        'ended': world.ended,
    }


def viol(vclass: str, detail: str, **facts) -> dict:
    return {'class': vclass, 'detail': detail, 'facts': facts}


def jclone(x):
    return json.loads(json.dumps(x))


def wire_messages(world: World, cid: int | None = None) -> list[tuple[int, float, int, bytes]]:
    """reference-framed messages exabgp wrote, per connection: (cid, mono, type, body)"""
    bufs: dict[int, bytearray] = {}
    times: dict[int, list] = {}
    out = []
    for c, mono, data in world.net.tx_log:
        if cid is not None and c != cid:
            continue
        b = bufs.setdefault(c, bytearray())
        b += data
        while len(b) >= 19:
            n = int.from_bytes(b[16:18], 'big')
            if n < 19 or len(b) < n:
                break
            out.append((c, mono, b[18], bytes(b[19:n])))
            del b[:n]
    return out
