"""C12 - hold and keepalive timers keep their RFC promises."""

from __future__ import annotations

from scenarios.common import R, Speaker, config_text, jclone, knobs, make_world, result, speaker_caps, viol, wire_messages

ID = 'C12'
LEVEL = 'exploration'
LEVEL_TEXT = (
    'seeded exploration of peer arrival schedules built around the thresholds (silences of H-1.5, H-0.2, H+0.2, H+2.5 s broken by '
    'every message kind), negotiated hold times {0,3,4,5,9,30,90}, inbound bursts, long outbound batches, pass costs up to 50 ms, '
    'process stalls, clock drift and sub-second wall steps, all on the virtual clock; oracle over the virtual timestamps of '
    'KEEPALIVE / NOTIFICATION bytes with tolerances measured per run (read poll + pass cost + injected stalls).'
    ' `local-as auto`; an optional warm-up session negotiated with another hold time.'
    ' The script may end in the first octets of a message (a read in progress is no message); the OPEN may arrive in two pieces around the open-wait threshold.'
)
LEVEL_NOTE = 'trusts: the virtual clocks (time.time patched to wall = epoch + mono*(1+drift) + step), simulated TCP delivery times; large wall-clock steps are deliberately outside the judged fault space'
DESIGN_REF = 'DESIGN.md section 5, C12'
RULE = (
    'plan = (configured hold, peer hold) x arrival script of (gap relative to H, message kind) x final behaviour (silent / keepalive) x '
    'outbound batch size x stalls x tick x drift; non-trivial = at least one gap within 3 s of H or a stall or a batch > 100 routes; '
    'distinct = schedule signatures'
)
ASSUMPTIONS = [
    'g_down = 0.1 s read poll + 3 x max pass cost + injected stall time; g_up = 2 s (two integer-second truncations) + g_down',
    'time during which the simulated send window was closed is excluded from the KEEPALIVE gap rule',
    'wall-clock steps larger than 1 s are not injected (policy question, see DESIGN.md)',
]

LOCAL, PEER = '10.0.0.1', '10.0.0.2'


def counts(tier: str):
    return (900, 75.0) if tier == 'quick' else (20000, 900.0)


def generate(rng, tier: str, index: int) -> dict:
    hc = rng.choice([0, 3, 4, 5, 9, 9, 30, 90])
    hs = rng.choice([0, 3, 3, 4, 6, 9, 30, 180]) if hc else rng.choice([0, 3, 9, 90])
    mode = rng.choice(['arrivals', 'arrivals', 'arrivals', 'openwait'])
    script = []
    h = min(hc, hs) if hc and hs else 0
    for _ in range(rng.randint(1, 8)):
        if h:
            d = rng.choice([-1.5, -0.2, -0.6, -2.5, -h * 0.5, -h * 0.9, 0.2, 0.9, 2.5, -h + 0.05])
            gap = max(0.01, h + d)
        else:
            gap = rng.choice([0.5, 5.0, 40.0, 200.0])
        script.append({'gap': round(gap, 3), 'kind': rng.choice(['ka', 'ka', 'eor', 'upd', 'rr', 'unk']), 'burst': rng.choice([1, 1, 1, 5, 100])})
    stalls = []
    if rng.chance(0.3):
        for _ in range(rng.randint(1, 3)):
            stalls.append([round(rng.random() * 40, 2), rng.choice([0.2, 0.5, 1.0])])
        stalls.sort()
    k = knobs(rng)
    if max(hc, hs) >= 90:
        k['tick'] = max(k['tick'], 0.01)
    return {
        'micro_seed': rng.randint(1, 1 << 48), 'knobs': k, 'hold_conf': hc, 'hold_peer': hs, 'mode': mode, 'script': script,
        # 'partial': the first octets of a message, then nothing - a read that has begun is no message: 4/0 after H all the same
        'final': rng.choice(['silent', 'silent', 'keepalive', 'partial']), 'partial_n': rng.choice([1, 10, 16, 18, 19, 21, 30]),
        # 'openwait' mode: the OPEN starts arriving at once and completes only at the instant chosen by open_delay
        'open_partial': rng.choice([None, None, 1, 16, 19, 28]), 'batch': rng.choice([0, 0, 10, 300, 2000]), 'stalls': stalls,
        'openwait': rng.choice([5, 8, 20]), 'open_delay': rng.choice([-1.0, -0.2, 0.3, 3.0]),
        'window_stall': rng.choice([0.0, 0.0, 0.5, 2.0]),
        # the peer confirms the OPEN with its first KEEPALIVE only after this long (legal up to the hold time)
        'ka_delay': round(rng.choice([0.0, 0.0, 0.0, 1.0, 0.4 * h, 0.6 * h]), 2) if h else 0.0,
        # `local-as auto`: exabgp answers the peer's OPEN instead of sending first; the timers must be the same
        'local_auto': rng.chance(0.15),
        # a first, short session negotiated with another hold time (the peer changed its configuration in between): the timers of
        # the judged session are those of its own negotiation
        'warmup_hold': rng.choice([None, None, None, 0, 3, 9, 180]),
    }  # fmt: skip


def execute(plan: dict) -> dict:
    plan = jclone(plan)
    plan.setdefault('knobs', {}).setdefault('env', {})['bgp.openwait'] = plan['openwait']
    w = make_world(plan)
    hc, hs = plan['hold_conf'], plan['hold_peer']
    H = min(hc, hs) if hc and hs else 0
    w.loop.stalls = [list(x) for x in plan['stalls']]
    stall_total = sum(x[1] for x in plan['stalls'])
    neighbor = {
        'peer_ip': PEER, 'local_ip': LOCAL, 'local_as': 'auto' if plan.get('local_auto') else 65001, 'peer_as': 65002, 'router_id': LOCAL, 'hold': hc,
        'families': [(1, 1)], 'caps': {'route-refresh': True}, 'api': {'processes': ['h1']}, 'group-updates': False,
    }  # fmt: skip
    spk = Speaker(w, 'p1', PEER, 65002, PEER, LOCAL, hold=hs, caps=speaker_caps({'asn': 65002}))
    spk.periodic_keepalive = False
    rx_done: list[float] = []  # delivery time (to exabgp's socket) of the last byte of each complete message we sent
    warm = plan.get('warmup_hold') is not None and plan['mode'] != 'openwait'
    if warm:
        spk.hold = plan['warmup_hold']
    if plan.get('ka_delay'):
        spk.auto_keepalive = False

        def delayed_ka(sess) -> None:
            def later() -> None:
                if sess.state != 'closed' and sess.sent_open and not sess.sent_ka:
                    sess.sent_ka = True
                    sess.send(R.keepalive(), cuts=[])
                    if not (warm and sess.index == 0):
                        rx_done.append(sess.conn._to_exa_last)

            w.after(plan['ka_delay'], later)

        spk.on_open.append(delayed_ka)
    w.boot(config_text([{'name': 'h1'}], [neighbor]))
    helper = w.procs.helper('h1')
    st = {'sess': None, 'script_end': None, 'connected_at': None, 'open_sent_at': None, 'window_closed': []}
    probes = {'gaps_near_H': 0, 'hold_expired': 0, 'survived_to_end': 0, 'openwait_runs': 0, 'stalls': len(plan['stalls']), 'h_zero': int(H == 0)}

    def send_msg(sess, kind: str, n: int = 1) -> None:
        for i in range(n):
            if kind == 'ka':
                data = R.keepalive()
            elif kind == 'eor':
                data = R.eor()
            elif kind == 'rr':
                data = R.route_refresh(1, 1)
            elif kind == 'unk':
                attrs = (
                    R.attribute(R.A_ORIGIN, b'\x00')
                    + R.attribute(R.A_AS_PATH, R.enc_as_path([(2, [65002])], True))
                    + R.attribute(R.A_NEXT_HOP, bytes([10, 0, 0, 2]))
                    + R.attribute(213, b'\x01\x02', flags=0x80)
                )
                data = R.build_update(attrs=attrs, nlri=bytes([24, 198, 51, i % 250]))
            else:
                attrs = R.attribute(R.A_ORIGIN, b'\x00') + R.attribute(R.A_AS_PATH, R.enc_as_path([(2, [65002])], True)) + R.attribute(R.A_NEXT_HOP, bytes([10, 0, 0, 2]))
                data = R.build_update(attrs=attrs, nlri=bytes([24, 203, 0, i % 250]))
            sess.send(data, cuts=[])
            rx_done.append(sess.conn._to_exa_last)

    def run_script(sess, i: int) -> None:
        if sess.state == 'closed':
            return
        if i >= len(plan['script']):
            st['script_end'] = w.loop.mono
            if plan['final'] == 'partial':
                attrs = R.attribute(R.A_ORIGIN, b'\x00') + R.attribute(R.A_AS_PATH, R.enc_as_path([(2, [65002])], True)) + R.attribute(R.A_NEXT_HOP, bytes([10, 0, 0, 2]))
                probes['partial_message_then_silence'] = probes.get('partial_message_then_silence', 0) + 1
                w.after(0.3, lambda: sess.send(R.build_update(attrs=attrs, nlri=bytes([24, 203, 0, 113]))[: plan.get('partial_n', 10)], cuts=[]) if sess.state != 'closed' else None)
            if plan['final'] == 'keepalive' and H:
                iv = max(0.5, H / 3.0 - 0.2)

                def ka() -> None:
                    if sess.state != 'closed':
                        send_msg(sess, 'ka')
                        w.after(iv, ka)

                w.after(iv, ka)
            return
        step = plan['script'][i]
        if H and abs(step['gap'] - H) <= 3.0:
            probes['gaps_near_H'] += 1

        def fire() -> None:
            if sess.state == 'closed':
                return
            send_msg(sess, step['kind'], step['burst'])
            run_script(sess, i + 1)

        w.after(step['gap'], fire)

    def on_session(sess) -> None:
        if st['sess'] is not None:
            return
        if warm and sess.index == 0:
            # the warm-up session: established, then reset by the peer, which comes back with the hold time of the plan
            def end_warmup() -> None:
                spk.hold = hs
                if sess.state != 'closed':
                    sess.reset()

            w.after(3.0 + plan.get('ka_delay', 0.0), end_warmup)
            return
        st['sess'] = sess
        st['connected_at'] = w.loop.mono
        if plan['mode'] == 'openwait':
            probes['openwait_runs'] += 1
            spk.auto_open = False
            d = plan['openwait'] + plan['open_delay']
            if plan.get('open_partial'):
                data = R.build_open(spk.asn, spk.hold, spk.router_id, spk.caps)
                spk.auto_keepalive = False
                sess.sent_open = True
                sess.open_tx = data
                probes['open_in_two_pieces'] = probes.get('open_in_two_pieces', 0) + 1
                sess.send(data, cuts=[plan['open_partial']], delays=[0.02, max(0.05, d) - 0.02])

                def confirm() -> None:
                    if sess.state != 'closed' and not sess.sent_ka:
                        sess.sent_ka = True
                        sess.send(R.keepalive())

                w.after(max(0.05, d) + 0.05, confirm)
                return

            def late_open() -> None:
                if sess.state != 'closed':
                    st['open_sent_at'] = w.loop.mono
                    spk.send_open(sess)

            w.after(max(0.05, d), late_open)

    def on_established(sess) -> None:
        if warm and sess.index == 0:
            probes['warmup_sessions'] = probes.get('warmup_sessions', 0) + 1
            return
        if sess is not st['sess']:
            return
        if not plan.get('ka_delay'):
            rx_done.append(w.loop.mono)
        if plan['batch']:
            lines = ''.join(f'peer * announce route 10.{(i >> 8) % 250}.{i % 256}.0/24 next-hop 10.0.0.9 med {i}\n' for i in range(plan['batch']))
            w.after(0.5, lambda: helper.emit(lines.encode()))
        if plan['window_stall'] and plan['batch']:

            def close_w() -> None:
                sess.conn.set_window(0)
                st['window_closed'].append([w.loop.mono, None])

            def open_w() -> None:
                sess.conn.set_window(None)
                if st['window_closed']:
                    st['window_closed'][-1][1] = w.loop.mono

            w.after(0.8, close_w)
            w.after(0.8 + plan['window_stall'], open_w)
        run_script(sess, 0)

    def on_closed(sess) -> None:
        if sess is st['sess']:
            spk.accept_mode = 'refuse'
            w.after(1.0, lambda: w.signal('SHUTDOWN'))

    spk.on_session.append(on_session)
    spk.on_established.append(on_established)
    spk.on_closed.append(on_closed)

    total = sum(s['gap'] for s in plan['script']) + (H or 10) + 8.0 + stall_total + plan['openwait'] + 5 + (40.0 if warm else 0.0)
    w.run(until=total + 5.0)

    violations = judge(plan, w, spk, st, rx_done, H, stall_total, probes)
    near = probes['gaps_near_H'] > 0 or plan['stalls'] or plan['batch'] > 100 or plan['mode'] == 'openwait'
    return result(w, violations, faults={'silence': int(plan['final'] == 'silent'), 'process_stall': len(plan['stalls']), 'window_stall': len(st['window_closed'])}, probes=probes, nontrivial=bool(near), sample={'H': H, 'mode': plan['mode'], 'script': len(plan['script'])})


def judge(plan, w, spk, st, rx_done, H, stall_total, probes) -> list[dict]:
    sess = st['sess']
    if sess is None:
        return []
    g_down = 0.1 + 3 * w.loop.max_pass_cost + stall_total + 0.02
    g_up = 2.0 + g_down
    drift = abs(plan['knobs'].get('drift', 0.0))
    msgs = [(t, mt, b) for c, t, mt, b in wire_messages(w, sess.conn.cid)]
    # the hold timer restarts when exabgp *reads* a message: measure silences between the instants messages were handed
    # to the protocol layer (never earlier than their delivery to the socket); the delivery->read lag is reported as a probe
    reads = [t for t, ln, mt, err in w.read_log.get(sess.conn.sock._fd, []) if not err and t >= (sess.established_at or 0)]
    if reads:
        lag = 0.0
        dl = sorted(rx_done)
        for i, t in enumerate(reads[-len(dl):]):
            pass
        rx_done = reads + [r for r in rx_done if r > max(reads) + 1e9]
        probes['max_backlog_reads'] = max(probes.get('max_backlog_reads', 0), len(reads))
    notifs = [(t, (b[0], b[1])) for t, mt, b in msgs if mt == R.NOTIFICATION and len(b) >= 2]
    kas = [t for t, mt, b in msgs if mt == R.KEEPALIVE]
    end = sess.closed_at if sess.closed_at is not None else w.loop.mono
    out = []
    if plan['mode'] == 'openwait':
        ow = plan['openwait']
        t0 = st['connected_at']
        if plan['open_delay'] > g_down + 0.3:
            # the OPEN came too late: 5/1 expected at about t0 + openwait
            if not notifs:
                out.append(viol('C12/openwait-not-enforced', f'no OPEN for {ow + plan["open_delay"]:.1f}s (openwait {ow}s) and no NOTIFICATION was sent; session {sess.state}', openwait=ow))
            else:
                t, cs = notifs[0]
                if cs != (5, 1):
                    out.append(viol('C12/openwait-wrong-notification', f'open wait expiry answered with {cs}, expected (5, 1)', got=str(cs)))
                elif t - t0 < ow * (1 - drift) - 0.05:
                    out.append(viol('C12/openwait-early', f'5/1 sent after {t - t0:.3f}s, before the configured open wait of {ow}s', after=round(t - t0, 3), openwait=ow))
                elif t - t0 > ow + g_down + 0.5:
                    out.append(viol('C12/openwait-late', f'5/1 sent after {t - t0:.3f}s, open wait {ow}s (+{g_down:.2f}s granularity)', after=round(t - t0, 3), openwait=ow))
        elif plan['open_delay'] < -(g_down + 0.1):
            if notifs and notifs[0][1] == (5, 1) and sess.established_at is None:
                out.append(viol('C12/openwait-early', f'OPEN sent {-plan["open_delay"]:.1f}s before the open wait of {ow}s expired but the attempt ended with 5/1', openwait=ow))
        return out
    if sess.established_at is None:
        return out
    hold_notifs = [(t, cs) for t, cs in notifs if cs == (4, 0)]
    if H == 0:
        if hold_notifs:
            out.append(viol('C12/hold-fired-with-zero-holdtime', f'negotiated hold time 0 but NOTIFICATION 4/0 at t={hold_notifs[0][0]:.2f}'))
        # exabgp writes one KEEPALIVE in OPENCONFIRM; none may follow once established (a single one in place of End-of-RIB is allowed)
        after = [t for t in kas if t > sess.established_at + 0.001]
        if len(after) > 1:
            out.append(viol('C12/keepalive-with-zero-holdtime', f'negotiated hold time 0 but {len(after)} KEEPALIVEs were sent after establishment at {[round(t, 2) for t in after[:5]]}', count=len(after)))
        return out
    # (a) never closed for a silence shorter than H
    for t, cs in hold_notifs:
        before = sorted(r for r in rx_done if r <= t) or [sess.established_at]
        # a silence of at least H must have ended no earlier than g_down before the NOTIFICATION (a message that
        # arrived within the last read-poll interval may legitimately not have been looked at yet)
        gaps = [(a, b) for a, b in zip(before, before[1:] + [t]) if b >= t - g_down]
        longest = max((b - a for a, b in gaps), default=0.0)
        probes['hold_expired'] += 1
        if longest < H * (1 - drift) - 0.02:
            out.append(viol('C12/hold-fired-early', f'NOTIFICATION 4/0 at t={t:.3f} but the longest silence ending in the last {g_down:.2f}s was {longest:.3f}s < hold time {H}s (last message reached exabgp at t={before[-1]:.3f})', silence=round(longest, 3), hold=H))
            return out
    # (b) silence longer than H + g_up must have closed the session with 4/0
    stop_b = end if not hold_notifs else hold_notifs[0][0]
    times = sorted(r for r in rx_done if r <= stop_b)
    pts = times + [stop_b]
    for a, b in zip(pts, pts[1:]):
        if b - a > H * (1 + drift) + g_up + 0.05:
            out.append(viol('C12/hold-not-enforced', f'nothing reached exabgp between t={a:.2f} and t={b:.2f} ({b - a:.2f}s > hold time {H}s + {g_up:.2f}s) and the session was not closed with 4/0 in that interval', gap=round(b - a, 2), hold=H))
            return out
    if sess.closed_by == 'exabgp' and not hold_notifs and not notifs and sess.closed_at is not None and sess.closed_at < state_end(w) - 0.5:
        out.append(viol('C12/closed-without-notification', f'session closed by exabgp at t={sess.closed_at:.2f} without NOTIFICATION'))
        return out
    if not hold_notifs and not notifs:
        probes['survived_to_end'] += 1
    # (c) keepalive spacing while established
    stop = hold_notifs[0][0] if hold_notifs else end
    ka_iv = int(H / 3)
    bound = H / 3.0 + 1.0 + g_down
    pts = [sess.established_at] + [t for t in kas if sess.established_at < t <= stop] + [stop]
    for a, b in zip(pts, pts[1:]):
        excl = sum(max(0.0, min(b, c[1] if c[1] is not None else b) - max(a, c[0])) for c in st['window_closed'])
        if b - a - excl > bound + 0.05 and ka_iv > 0:
            out.append(viol('C12/keepalive-gap', f'no KEEPALIVE written between t={a:.2f} and t={b:.2f} ({b - a - excl:.2f}s with the window open) > H/3 + 1 + granularity = {bound:.2f}s (H={H})', gap=round(b - a - excl, 2), hold=H))
            return out
    return out


def state_end(w) -> float:
    for ev in w.history:
        if ev[2] in ('sim-shutdown-request', 'signal'):
            return ev[1]
    return w.loop.mono


def shrink_candidates(plan: dict):
    from exasim.runner import generic_candidates

    yield from generic_candidates(plan, ['script'])
    yield from generic_candidates(plan, ['stalls'])
    for key, val in (('batch', 0), ('window_stall', 0.0), ('final', 'silent')):
        if plan.get(key) != val:
            p = jclone(plan)
            p[key] = val
            yield p
    for i, s in enumerate(plan['script']):
        if s['burst'] != 1:
            p = jclone(plan)
            p['script'][i]['burst'] = 1
            yield p
        if s['kind'] != 'ka':
            p = jclone(plan)
            p['script'][i]['kind'] = 'ka'
            yield p
    k = plan['knobs']
    if k.get('tick') != 0.002 or k.get('drift') or k.get('wall_step'):
        p = jclone(plan)
        p['knobs'].update({'tick': 0.002, 'drift': 0.0, 'wall_step': 0.0})
        yield p
