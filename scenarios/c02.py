"""C02 - reported routes are exactly what the peer sent."""

from __future__ import annotations

import ipaddress
import json

from scenarios.common import FAM_TEXT, R, Speaker, config_text, jclone, knobs, make_world, result, speaker_caps, viol

ID = 'C02'
LEVEL = 'exploration'
LEVEL_TEXT = (
    'refinement of the running speaker against the independent reference decoder: 1-2 scripted peers of different negotiated kinds '
    '(2-/4-byte AS, ADD-PATH receive per family, iBGP/eBGP, seven IP families) send sequences of well-formed UPDATEs generated from '
    'structured values (withdrawn + attributes in any order with extended-length and partial flags + NLRI + MP_REACH/MP_UNREACH, '
    'AS_TRANS/AS4_PATH/AS4_AGGREGATOR as RFC 6793 OLD speakers produce them, End-of-RIBs in both forms), delivered segmented and '
    'interleaved by the scheduler; oracle: every JSON API event, in order, and the final Adj-RIB-In equal what refbgp.decode_update / '
    'PeerTable extract from the same bytes.'
    ' Scripts repeat an UPDATE back to back.'
    ' AIGP with one or several TLVs, on sessions configured to accept it and on sessions that are not.'
)
LEVEL_NOTE = 'trusts: the reference decoder (refbgp) and the JSON-to-canonical mapping in this file; session-destroying faults are off'
DESIGN_REF = 'DESIGN.md section 5, C02'
RULE = (
    'plan = 1-2 session kinds x 1-30 structured UPDATEs each; non-trivial = at least one UPDATE with attributes and NLRI was judged; '
    'distinct = digests of (kinds, UPDATE bytes); per-attribute and per-family counts are in the probes'
)
ASSUMPTIONS = [
    'AS_PATH/AS4_PATH pairs are built as RFC 6793 speakers build them (AS4_PATH = the true path, AS_PATH = the same with AS_TRANS plus 2-byte prepends), so the merge result does not depend on how an AS_SET is counted',
    'AIGP: reported (the first AIGP TLV) on sessions configured to accept it, left out on the others (RFC 7311 3.2, 3.4)',
    'unknown attributes use codes ExaBGP does not implement; unknown optional non-transitive ones are expected to be left out; the partial bit of relayed unknown transitive attributes is not compared',
    'every UPDATE with NLRI carries the mandatory attributes for its kind of session',
    'label stacks of several labels end with the bottom-of-stack bit (RFC 3107 style, no Multiple Labels capability) and label 0 is only generated as the last label; an empty AS_PATH and an absent as-path are the same report',
]

LOCAL = '10.0.0.1'
FAMS = [(1, 1), (2, 1), (1, 4), (2, 4), (1, 128), (2, 128), (1, 2)]
UNKNOWN_CODES = [11, 12, 13, 19, 21, 30, 99, 128, 200, 254, 255]


def counts(tier: str):
    return (1500, 75.0) if tier == 'quick' else (40000, 900.0)


# --------------------------------------------------------------------------- generation


def gen_kind(rng, idx: int) -> dict:
    asn4 = rng.chance(0.5)
    ibgp = rng.chance(0.3)
    peer_as = 65001 if ibgp else (rng.choice([65002, 4200000002]) if asn4 else 65002 + idx)
    fams = [f for f in FAMS if rng.chance(0.75)] or [(1, 1)]
    if (1, 1) not in fams and rng.chance(0.7):
        fams.insert(0, (1, 1))
    ap = [f for f in fams if rng.chance(0.35) and f[1] != 2]  # ExaBGP does not negotiate ADD-PATH for multicast (C07 assumption)
    # RFC 8950 extended next hop for the IPv4 families that are negotiated
    nhe = [f for f in fams if f[0] == 1 and f[1] in (1, 4, 128) and (2, f[1]) in fams] if rng.chance(0.3) else []  # ExaBGP only advertises the pair when the IPv6 family of the same SAFI is configured too
    return {'idx': idx, 'peer_ip': f'10.0.0.{2 + idx}', 'peer_as': peer_as, 'asn4': asn4, 'families': fams, 'addpath': ap, 'nexthop_ext': nhe}


def gen_prefix(rng, afi: int) -> str:
    if afi == 1:
        bits = rng.choice([0, 1, 7, 8, 9, 15, 16, 17, 23, 24, 24, 24, 25, 31, 32])
        v = rng.randint(0, (1 << 32) - 1) if bits else 0
        v &= ((1 << 32) - 1) ^ ((1 << (32 - bits)) - 1)
        if rng.chance(0.5):
            v = (v & 0x0000FFFF) | (10 << 24) | (rng.randint(0, 3) << 16)
            v &= ((1 << 32) - 1) ^ ((1 << (32 - bits)) - 1)
        return f'{ipaddress.IPv4Address(v)}/{bits}'
    bits = rng.choice([0, 1, 16, 32, 47, 48, 48, 49, 63, 64, 64, 65, 127, 128])
    v = (0x20010DB8 << 96) | rng.randint(0, (1 << 96) - 1) if bits else 0
    if rng.chance(0.5):
        v = (0x20010DB8 << 96) | (rng.randint(0, 3) << 80)
    v &= ((1 << 128) - 1) ^ ((1 << (128 - bits)) - 1)
    return f'{ipaddress.IPv6Address(v)}/{bits}'


def gen_nlri(rng, fam, addpath: bool, withdraw: bool = False) -> list:
    afi, safi = fam
    e = {'p': gen_prefix(rng, afi)}
    if addpath:
        e['pid'] = rng.choice([0, 1, 2, 7, 4294967295, rng.randint(0, 4294967295)])
    if safi in (4, 128):
        if withdraw and rng.chance(0.5):
            e['wl'] = True
            e['labels'] = [0]
        else:
            depth = rng.choice([1, 1, 1, 2, 3])
            if afi == 2 and safi == 128:
                depth = min(depth, 2)  # 128 + 64 + 24 * depth must fit the one-byte length
            e['labels'] = [rng.choice([0, 3, 16, 100, 1048575, rng.randint(16, 1048575)]) for _ in range(depth)]
            # label 0 without bottom-of-stack as the first of several is the 0x000000 "next hop" convention ExaBGP honours; not generated
            for i in range(depth - 1):
                if e['labels'][i] == 0:
                    e['labels'][i] = 17
    if safi == 128:
        kind = rng.choice([0, 1, 2])
        e['rd'] = [kind, {0: rng.choice([0, 1, 65000, 65535]), 1: rng.choice(['1.2.3.4', '255.255.255.255', '10.0.0.1']), 2: rng.choice([65536, 4200000000, 4294967295])}[kind], rng.choice([0, 1, 100, 65535]) if kind else rng.choice([0, 1, 4294967295])]
    return e


def gen_true_path(rng, kind: dict) -> list:
    segs = []
    first = [kind['peer_as']] if kind['peer_as'] != 65001 else []
    seq = first + [rng.choice([1, 100, 23456, 64512, 65535, 65536, 196608, 4200000001, 4294967295]) for _ in range(rng.choice([0, 0, 1, 2, 3, 5]))]
    if rng.chance(0.03):
        seq = seq + [rng.randint(1, 65535) for _ in range(rng.choice([250, 255, 256, 300]))]
    if seq:
        segs.append([2, seq])
    if rng.chance(0.2):
        segs.append([1, sorted({rng.choice([7, 8, 9, 65540, 65541]) for _ in range(rng.randint(1, 4))})])
        if rng.chance(0.3):
            segs.append([2, [rng.choice([5, 6, 70000])]])
    return segs


def gen_attrs(rng, kind: dict, need_nh: bool, any_nlri: bool) -> list:
    """ordered list of [name, value, {'ext': bool, 'partial': bool}]"""
    out = []
    asn4 = kind['asn4']

    def opts(optional_transitive: bool = False):
        return {'ext': rng.chance(0.15), 'partial': optional_transitive and rng.chance(0.15)}

    if not any_nlri and rng.chance(0.6):
        return out
    out.append(['origin', rng.choice([0, 0, 1, 2]), opts()])
    path = gen_true_path(rng, kind)
    if asn4:
        out.append(['as_path', path, opts()])
    else:
        big = any(a > 65535 for _, seg in path for a in seg)
        two = [[t, [a if a <= 65535 else 23456 for a in seg]] for t, seg in path]
        mode = 'plain'
        if big or rng.chance(0.2):
            mode = rng.choice(['as4', 'as4', 'as4', 'as4-prepended', 'as4-longer'])
        if mode == 'plain':
            if big:
                mode = 'as4'
        if mode == 'as4-longer' and any(t != 2 for t, _ in two):
            mode = 'as4'  # with a set in the path the comparison of lengths depends on how a set is counted
        if mode == 'as4-prepended':
            pre = [rng.randint(1, 65535) for _ in range(rng.randint(1, 3))]
            if two and two[0][0] == 2:
                two[0][1] = pre + two[0][1]
            else:
                two.insert(0, [2, pre])
            if rng.chance(0.3):
                # an OLD speaker aggregated: a set in front of everything (same result however a set is counted)
                two.insert(0, [1, sorted({rng.randint(1, 65535) for _ in range(rng.randint(1, 3))})])
        out.append(['as_path', two, opts()])
        if mode in ('as4', 'as4-prepended') and path:
            out.append(['as4_path', path, opts(True)])
        elif mode == 'as4-longer':
            # more AS numbers in AS4_PATH than in AS_PATH (sequences only): AS4_PATH is ignored
            n2 = sum(len(seg) for t, seg in two if t == 2) + sum(1 for t, seg in two if t == 1)
            out.append(['as4_path', [[2, [4200000000 + i for i in range(n2 + rng.randint(1, 3))]]], opts(True)])
    if need_nh:
        out.append(['next_hop', rng.choice(['10.0.0.9', '192.0.2.1', '10.0.0.2', '255.255.255.254']), opts()])
    elif rng.chance(0.1):
        out.append(['next_hop', '10.0.0.9', opts()])
    if rng.chance(0.5):
        out.append(['med', rng.choice([0, 1, 100, 4294967295]), opts()])
    if kind['peer_as'] == 65001 or rng.chance(0.1):
        out.append(['local_pref', rng.choice([0, 100, 200, 4294967295]), opts()])
    if rng.chance(0.15):
        out.append(['atomic', True, opts()])
    if rng.chance(0.25):
        asn = rng.choice([1, 65010, 65535, 23456, 65536, 4200000001, 4294967295])
        ip = rng.choice(['10.0.0.7', '0.0.0.0', '255.255.255.255'])
        if asn4:
            out.append(['aggregator', [asn, ip], opts(True)])
        elif asn > 65535:
            out.append(['aggregator', [23456, ip], opts(True)])
            out.append(['as4_aggregator', [asn, ip], opts(True)])
        else:
            out.append(['aggregator', [asn, ip], opts(True)])
            if rng.chance(0.2) and asn != 23456:
                # an OLD speaker re-aggregated: AGGREGATOR is not AS_TRANS, a stale AS4_AGGREGATOR (and AS4_PATH) are void
                out.append(['as4_aggregator', [4200000009, '10.9.9.9'], opts(True)])
    if rng.chance(0.4):
        out.append(['communities', [[rng.choice([0, 65000, 65535]), rng.choice([0, 1, 65281, 65535])] for _ in range(rng.choice([1, 2, 3, 8, 70]))], opts(True)])
    if kind['peer_as'] == 65001 and rng.chance(0.3):
        out.append(['originator', rng.choice(['1.2.3.4', '255.255.255.255']), opts()])
        out.append(['cluster', [rng.choice(['1.1.1.1', '2.2.2.2', '0.0.0.1']) for _ in range(rng.randint(1, 4))], opts()])
    if rng.chance(0.3):
        ecs = []
        for _ in range(rng.randint(1, 4)):
            kind_ec = rng.choice(['rt2', 'rt4', 'rtip', 'soo', 'opaque', 'unknown', 'bw'])
            if kind_ec == 'rt2':
                ecs.append((bytes([0, 2]) + rng.choice([1, 65000, 65535]).to_bytes(2, 'big') + rng.choice([0, 1, 4294967295]).to_bytes(4, 'big')).hex())
            elif kind_ec == 'rt4':
                ecs.append((bytes([2, 2]) + rng.choice([65536, 4200000001]).to_bytes(4, 'big') + rng.choice([0, 1, 65535]).to_bytes(2, 'big')).hex())
            elif kind_ec == 'rtip':
                ecs.append((bytes([1, 2, 10, 0, 0, 1]) + rng.choice([0, 65535]).to_bytes(2, 'big')).hex())
            elif kind_ec == 'soo':
                ecs.append((bytes([0, 3]) + (65000).to_bytes(2, 'big') + (77).to_bytes(4, 'big')).hex())
            elif kind_ec == 'bw':
                ecs.append((bytes([0x40, 4]) + (65000).to_bytes(2, 'big') + bytes([0x49, 0x74, 0x24, 0x00])).hex())
            elif kind_ec == 'opaque':
                ecs.append((bytes([0x03, 0x0C]) + bytes(rng.randint(0, 255) for _ in range(6))).hex())
            else:
                ecs.append((bytes([rng.choice([0x43, 0x90, 0xFF, 0x7F]), rng.randint(0, 255)]) + bytes(rng.randint(0, 255) for _ in range(6))).hex())
        out.append(['ext', ecs, opts(True)])
    if rng.chance(0.25):
        out.append(['large', [[rng.choice([0, 65000, 4294967295]), rng.choice([0, 1, 4294967295]), rng.choice([0, 2, 4294967295])] for _ in range(rng.choice([1, 2, 5]))], opts(True)])
    nunk = rng.choice([0, 0, 0, 1, 2, 12]) if not rng.chance(0.01) else 300
    codes = rng.sample(UNKNOWN_CODES, min(nunk, len(UNKNOWN_CODES)))
    for code in codes:
        flags = rng.choice([0xC0, 0xC0, 0x80, 0xE0])
        out.append(['unknown', [code, flags, bytes(rng.randint(0, 255) for _ in range(rng.choice([0, 1, 3, 8, 255, 256, 300]))).hex()], {'ext': rng.chance(0.2), 'partial': False}])
    return out


def gen_update(rng, kind: dict) -> dict:
    fams = [tuple(f) for f in kind['families']]
    ap = {tuple(f) for f in kind['addpath']}
    r = rng.random()
    if r < 0.08:
        f = rng.choice(fams)
        return {'eor': [f[0], f[1], rng.chance(0.5)]}
    u: dict = {}
    has4 = (1, 1) in fams
    if has4 and rng.chance(0.35):
        u['wd'] = [gen_nlri(rng, (1, 1), (1, 1) in ap, True) for _ in range(rng.choice([1, 1, 2, 5, 40]))]
    if has4 and rng.chance(0.6):
        u['nlri'] = [gen_nlri(rng, (1, 1), (1, 1) in ap) for _ in range(rng.choice([1, 1, 2, 3, 10, 60]))]
    if rng.chance(0.45):
        f = rng.choice(fams)
        n = [gen_nlri(rng, f, f in ap) for _ in range(rng.choice([1, 1, 2, 5, 30]))]
        if f[0] == 1 and list(f) in [list(x) for x in kind.get('nexthop_ext', [])] and rng.chance(0.6):
            nh = [rng.choice(['2001:db8::9', '2001:db8:ffff::1'])]
            if rng.chance(0.3) and f[1] != 128:
                nh.append('fe80::1')
        elif f[0] == 1 and f[1] != 128:
            nh = [rng.choice(['10.0.0.9', '192.0.2.77'])]
        elif f[0] == 1:
            nh = [rng.choice(['10.0.0.9', '192.0.2.77'])]
        else:
            nh = [rng.choice(['2001:db8::9', '2001:db8:ffff::1'])]
            if rng.chance(0.3) and f[1] != 128:
                nh.append('fe80::1')
        u['mpr'] = {'fam': list(f), 'nh': nh, 'nlri': n}
    if rng.chance(0.3):
        f = rng.choice(fams)
        u['mpu'] = {'fam': list(f), 'nlri': [gen_nlri(rng, f, f in ap, True) for _ in range(rng.choice([1, 1, 2, 5, 30]))]}
    if not u:
        u['nlri'] = [gen_nlri(rng, (1, 1), (1, 1) in ap)] if has4 else []
        if not has4:
            f = fams[0]
            u['mpu'] = {'fam': list(f), 'nlri': [gen_nlri(rng, f, f in ap, True)]}
    any_nlri = bool(u.get('nlri')) or 'mpr' in u
    u['attrs'] = gen_attrs(rng, kind, bool(u.get('nlri')), any_nlri)
    u['mp_first'] = rng.chance(0.5)
    u['shuffle'] = rng.randint(1, 1 << 30) if rng.chance(0.25) else 0
    return u


def generate(rng, tier: str, index: int) -> dict:
    kinds = [gen_kind(rng, i) for i in range(rng.choice([1, 2, 2]))]
    scripts = [[gen_update(rng, k) for _ in range(rng.randint(1, 30 if tier == 'thorough' else 14))] for k in kinds]
    for sc in scripts:
        # the very same UPDATE again, back to back (a peer re-sending, a withdraw repeated): the second copy must be reported like the first
        for _ in range(rng.choice([0, 0, 1, 2])):
            j = rng.randint(0, len(sc) - 1)
            sc.insert(j, jclone(sc[j]))
    plan = {'micro_seed': rng.randint(1, 1 << 48), 'knobs': knobs(rng), 'kinds': kinds, 'scripts': scripts, 'gap': rng.choice([0.0, 0.001, 0.02, 0.15]), 'split_p': rng.choice([0.0, 0.3, 0.8])}
    # AIGP (RFC 7311), from a side stream so that the plans generated so far keep their draws: a third of the sessions are configured to
    # accept it, the others must leave it out of what they report; the attribute holds one AIGP TLV, or several (the first one counts),
    # with TLVs of other types around them
    f = rng.fork('aigp')
    for k, sc in zip(kinds, scripts):
        k['aigp'] = f.chance(0.35)
        for u in sc:
            if u.get('attrs') and f.chance(0.2):
                tlvs = [[1, f.choice([0, 1, 100, 999, (1 << 64) - 1])] for _ in range(f.choice([1, 1, 2, 3]))]
                for _ in range(f.choice([0, 0, 1, 2])):
                    tlvs.insert(f.randint(0, len(tlvs)), [f.choice([2, 3, 200]), f.bytes(f.randint(0, 9)).hex()])
                u['attrs'].insert(f.randint(0, len(u['attrs'])), ['aigp', tlvs, {'ext': f.chance(0.15), 'partial': False}])
    return plan


# --------------------------------------------------------------------------- encoding (reference encoders only)


def enc_one(e: dict, afi: int) -> bytes:
    rd = R.enc_rd(*e['rd']) if 'rd' in e else None
    return R.enc_prefix(e['p'], pathid=e.get('pid'), labels=e.get('labels'), rd=rd, withdraw_label=bool(e.get('wl')))


def enc_attr(name: str, value, o: dict, asn4: bool) -> bytes:
    ext = True if o.get('ext') else None
    part = 0x20 if o.get('partial') else 0

    def A(code, data, base):
        return R.attribute(code, data, flags=base | part, extlen=ext)

    if name == 'origin':
        return A(R.A_ORIGIN, bytes([value]), 0x40)
    if name == 'as_path':
        return A(R.A_AS_PATH, R.enc_as_path([(t, s) for t, s in value], asn4), 0x40)
    if name == 'as4_path':
        return A(R.A_AS4_PATH, R.enc_as_path([(t, s) for t, s in value], True), 0xC0)
    if name == 'next_hop':
        return A(R.A_NEXT_HOP, ipaddress.IPv4Address(value).packed, 0x40)
    if name == 'med':
        return A(R.A_MED, value.to_bytes(4, 'big'), 0x80)
    if name == 'local_pref':
        return A(R.A_LOCAL_PREF, value.to_bytes(4, 'big'), 0x40)
    if name == 'atomic':
        return A(R.A_ATOMIC, b'', 0x40)
    if name == 'aggregator':
        return A(R.A_AGGREGATOR, value[0].to_bytes(4 if asn4 else 2, 'big') + ipaddress.IPv4Address(value[1]).packed, 0xC0)
    if name == 'as4_aggregator':
        return A(R.A_AS4_AGGREGATOR, value[0].to_bytes(4, 'big') + ipaddress.IPv4Address(value[1]).packed, 0xC0)
    if name == 'communities':
        return A(R.A_COMMUNITY, b''.join(a.to_bytes(2, 'big') + b.to_bytes(2, 'big') for a, b in value), 0xC0)
    if name == 'originator':
        return A(R.A_ORIGINATOR, ipaddress.IPv4Address(value).packed, 0x80)
    if name == 'cluster':
        return A(R.A_CLUSTER, b''.join(ipaddress.IPv4Address(v).packed for v in value), 0x80)
    if name == 'ext':
        return A(R.A_EXT_COMMUNITY, b''.join(bytes.fromhex(v) for v in value), 0xC0)
    if name == 'aigp':
        if isinstance(value, list):
            v = b''.join(bytes([t]) + ((11).to_bytes(2, 'big') + int(x).to_bytes(8, 'big') if t == 1 else (3 + len(x) // 2).to_bytes(2, 'big') + bytes.fromhex(x)) for t, x in value)
            return R.attribute(R.A_AIGP, v, extlen=ext)
        return R.attribute(R.A_AIGP, b'\x01\x00\x0b' + int(value).to_bytes(8, 'big'))
    if name == 'large':
        return A(R.A_LARGE_COMMUNITY, b''.join(a.to_bytes(4, 'big') + b.to_bytes(4, 'big') + c.to_bytes(4, 'big') for a, b, c in value), 0xC0)
    if name == 'unknown':
        return R.attribute(value[0], bytes.fromhex(value[2]), flags=value[1], extlen=ext)
    raise ValueError(name)


def enc_update(u: dict, kind: dict) -> bytes | None:
    """full message bytes, or None when it would not fit 4096"""
    if 'eor' in u:
        afi, safi, mp = u['eor']
        return R.eor(afi, safi, mp_form=True if (mp or (afi, safi) != (1, 1)) else None)
    asn4 = kind['asn4']
    blocks = [enc_attr(n, v, o, asn4) for n, v, o in u.get('attrs', [])]
    mp = []
    if 'mpr' in u:
        afi, safi = u['mpr']['fam']
        nh = b''
        for a in u['mpr']['nh']:
            ip = ipaddress.ip_address(a)
            nh += (bytes(8) if safi == 128 else b'') + ip.packed
        body = bytes([0, afi, safi, len(nh)]) + nh + b'\x00' + b''.join(enc_one(e, afi) for e in u['mpr']['nlri'])
        mp.append(R.attribute(R.A_MP_REACH, body))
    if 'mpu' in u:
        afi, safi = u['mpu']['fam']
        mp.append(R.attribute(R.A_MP_UNREACH, bytes([0, afi, safi]) + b''.join(enc_one(e, afi) for e in u['mpu']['nlri'])))
    allb = (mp + blocks) if u.get('mp_first') else (blocks + mp)
    if u.get('shuffle'):
        from exasim.choice import Rng

        Rng(u['shuffle']).shuffle(allb)
    msg = R.build_update(withdrawn=b''.join(enc_one(e, 1) for e in u.get('wd', [])), attrs=b''.join(allb), nlri=b''.join(enc_one(e, 1) for e in u.get('nlri', [])))
    return msg if len(msg) <= 4096 else None


# --------------------------------------------------------------------------- canonical forms

_SEG = {'as-sequence': 2, 'as-set': 1, 'as-confed-sequence': 3, 'as-confed-set': 4}
_ORIGIN = {'igp': 0, 'egp': 1, 'incomplete': 2}
_FAM_OF = {v: k for k, v in FAM_TEXT.items()}


def _join(segs: list) -> list:
    out: list = []
    for t, a in segs:
        if out and t == 2 and out[-1][0] == 2:
            out[-1] = (2, tuple(out[-1][1]) + tuple(a))
        elif a or t != 2:
            out.append((t, tuple(a)))
    return out


class Dup(Exception):
    pass


def _pairs(pairs):
    d = {}
    for k, v in pairs:
        if k in d:
            raise Dup(k)
        d[k] = v
    return d


def canon_json_attrs(a: dict) -> dict:
    out: dict = {}
    unknown = []
    for k, v in a.items():
        if k == 'origin':
            out['origin'] = _ORIGIN[v]
        elif k == 'as-path':
            segs = [(_SEG[v[i]['element']], tuple(v[i]['value'])) for i in sorted(v, key=int)]
            out['as_path'] = _join(segs)
            if not out['as_path']:
                del out['as_path']
        elif k == 'next-hop':
            pass
        elif k == 'med':
            out['med'] = v
        elif k == 'aigp':
            out['aigp'] = int(v, 16) if isinstance(v, str) else v  # exabgp prints the metric as 0x%016x
        elif k == 'local-preference':
            out['local_pref'] = v
        elif k == 'atomic-aggregate':
            if v:
                out['atomic'] = True
        elif k == 'aggregator':
            asn, ip = v.split(':')
            out['aggregator'] = (int(asn), ip)
        elif k == 'community':
            out['communities'] = sorted(tuple(c) for c in v)
        elif k == 'originator-id':
            out['originator_id'] = v
        elif k == 'cluster-list':
            out['cluster_list'] = list(v)
        elif k == 'extended-community':
            out['ext_communities'] = sorted(int(c['value']).to_bytes(8, 'big').hex() for c in v)
        elif k == 'large-community':
            out['large_communities'] = sorted(tuple(c) for c in v)
        elif k.startswith('attribute-0x'):
            _, code, flags = k.split('-')
            unknown.append((int(code, 16), v[2:].lower() if v.startswith('0x') else v))
        else:
            out['other:' + k] = v
    if unknown:
        out['unknown'] = sorted(unknown)
    return out


def canon_ref_attrs(a: dict, keep_aigp: bool = False) -> dict:
    c = R.canonical_attrs(a)
    if not keep_aigp:
        c.pop('aigp', None)  # sessions without the AIGP option discard it (RFC 7311 3.2)
    if 'as_path' in c:
        # ExaBGP splits nothing on reception; the reference keeps the segments as received
        c['as_path'] = _join(c['as_path'])
        if not c['as_path']:
            del c['as_path']
    if 'large_communities' in c:
        c['large_communities'] = sorted(set(c['large_communities']))  # RFC 8092 section 5: the receiver removes duplicates
    unk = [(code, v) for flags, code, v in a.get('unknown', []) if flags & 0x40]
    c.pop('unknown', None)
    if unk:
        c['unknown'] = sorted(unk)
    return c


def canon_json_nlri(fam, e: dict) -> tuple:
    afi, safi = fam
    prefix = str(ipaddress.ip_network(e['nlri'], strict=False))
    pid = None
    if 'path-information' in e:
        pid = int(ipaddress.IPv4Address(e['path-information']))
    labels = tuple(l[0] for l in e['label']) if 'label' in e else None
    rd = e.get('rd')
    return (afi, safi, pid, prefix, rd, labels)


def canon_ref_nlri(n: dict, withdraw: bool = False) -> tuple:
    labels = n['labels']
    return (n['afi'], n['safi'], n['pathid'], n['prefix'], n['rd'], labels)


def parse_event(line: str) -> dict:
    """-> {'eor': (afi,safi)} or {'announce': sorted [(nlri, nexthop)], 'withdraw': sorted [nlri], 'attrs': canon}"""
    ev = json.loads(line, object_pairs_hook=_pairs)
    msg = ev['neighbor']['message']
    if 'eor' in msg:
        afi = {'ipv4': 1, 'ipv6': 2, 'l2vpn': 25}.get(msg['eor']['afi'], msg['eor']['afi'])
        safi = _FAM_OF.get(f'{msg["eor"]["afi"]} {msg["eor"]["safi"]}', (None, msg['eor']['safi']))[1]
        return {'eor': (afi, safi)}
    u = msg['update']
    ann = []
    for famtext, byhop in u.get('announce', {}).items():
        fam = _FAM_OF[famtext]
        for nh, entries in byhop.items():
            for e in entries:
                ann.append((canon_json_nlri(fam, e), nh))
    wd = []
    for famtext, entries in u.get('withdraw', {}).items():
        fam = _FAM_OF[famtext]
        for e in entries:
            wd.append(canon_json_nlri(fam, e))
    return {'announce': sorted(ann, key=repr), 'withdraw': sorted(wd, key=repr), 'attrs': canon_json_attrs(u.get('attribute', {}))}


def expected_event(body: bytes, ctx, keep_aigp: bool = False) -> dict:
    d = R.decode_update(body, ctx)
    if d['eor'] is not None:
        return {'eor': tuple(d['eor'])}
    ann = [(canon_ref_nlri(n), _nh_text(nhs)) for n, nhs in d['announce']]
    wd = [_wd(canon_ref_nlri(n, True)) for n in d['withdraw']]
    return {'announce': sorted(ann, key=repr), 'withdraw': sorted(wd, key=repr), 'attrs': canon_ref_attrs(d['attrs'], keep_aigp)}


def _wd(t: tuple) -> tuple:
    return t


def _nh_text(nhs: list) -> str:
    return nhs[0] if nhs else 'null'


def first_diff(got: dict, want: dict) -> str:
    if ('eor' in got) != ('eor' in want) or ('eor' in got and got['eor'] != want['eor']):
        return f'end-of-rib: reported {got.get("eor")}, reference {want.get("eor")}'
    if 'eor' in got:
        return ''
    for key in ('announce', 'withdraw'):
        if got[key] != want[key]:
            g, x = set(map(repr, got[key])), set(map(repr, want[key]))
            missing = sorted(x - g)[:2]
            extra = sorted(g - x)[:2]
            if not missing and not extra:
                return f'{key}: same set, different multiplicity ({len(got[key])} reported, {len(want[key])} sent)'
            return f'{key}: missing {missing} invented {extra}'
    ga, wa = got['attrs'], want['attrs']
    for k in sorted(set(ga) | set(wa)):
        if ga.get(k) != wa.get(k):
            return f'attribute {k}: reported {str(ga.get(k))[:160]}, reference {str(wa.get(k))[:160]}'
    return ''


# --------------------------------------------------------------------------- execution


def execute(plan: dict) -> dict:
    w = make_world(plan)
    kinds = plan['kinds']
    confs, speakers, ctxs, sent = [], [], [], []
    for k in kinds:
        fams = [tuple(f) for f in k['families']]
        ap = [tuple(f) for f in k['addpath']]
        confs.append(
            {
                'peer_ip': k['peer_ip'], 'local_ip': LOCAL, 'local_as': 65001, 'peer_as': k['peer_as'], 'router_id': LOCAL, 'hold': 180,
                'families': fams, 'adj-rib-in': True, 'caps': {'asn4': k['asn4'], 'add-path': 'receive' if ap else 'disable', 'aigp': bool(k.get('aigp'))},
                'addpath_families': ap or None, 'api': {'processes': ['h1'], 'receive': ['parsed', 'update']},
            }
        )  # fmt: skip
        spec = {'asn': k['peer_as'], 'families': fams, 'asn4': k['asn4']}
        if k.get('nexthop_ext'):
            confs[-1]['caps']['nexthop'] = True
            confs[-1]['nexthop'] = [f'{FAM_TEXT[tuple(f)]} ipv6' for f in k['nexthop_ext']]
            spec['nexthop'] = [(f[0], f[1], 2) for f in k['nexthop_ext']]
        if ap:
            spec['addpath'] = [(a, s, 2) for a, s in ap]
        speakers.append(Speaker(w, f'p{k["idx"]}', k['peer_ip'], k['peer_as'], k['peer_ip'], LOCAL, hold=180, caps=speaker_caps(spec)))
        ctxs.append(R.Ctx(asn4=k['asn4'], addpath={f: True for f in ap}))
        sent.append([])
    w.boot(config_text([{'name': 'h1'}], confs))
    h = w.procs.helper('h1')
    w.net.split_p = plan.get('split_p', 0.0)
    probes: dict = {'updates': 0, 'oversize_skipped': 0}
    started = set()

    def start(i):
        def hook(sess) -> None:
            if i in started:
                return
            started.add(i)
            t = 0.2
            for u in plan['scripts'][i]:
                msg = enc_update(u, kinds[i])
                if msg is None:
                    probes['oversize_skipped'] += 1
                    continue
                t += plan['gap']
                sent[i].append(msg)
                w.after(t, lambda msg=msg, sess=sess: sess.send(msg) if sess.state != 'closed' else None)

        return hook

    for i, sp in enumerate(speakers):
        sp.on_established.append(start(i))
    violations: list[dict] = []
    n_max = max(len(s) for s in plan['scripts'])
    w.at_end.append(lambda: judge(w, plan, kinds, speakers, ctxs, sent, h, violations, probes))
    w.run(until=4.0 + n_max * (plan['gap'] + 0.05))
    for i, k in enumerate(kinds):
        for u in plan['scripts'][i]:
            probes['updates'] += 1
            for n, _, _ in u.get('attrs', []):
                probes['attr:' + n] = probes.get('attr:' + n, 0) + 1
            for key in ('mpr', 'mpu'):
                if key in u:
                    probes[f'{key}:{FAM_TEXT[tuple(u[key]["fam"])]}'] = probes.get(f'{key}:{FAM_TEXT[tuple(u[key]["fam"])]}', 0) + 1
            if 'eor' in u:
                probes['eor'] = probes.get('eor', 0) + 1
        probes['kind:asn4' if k['asn4'] else 'kind:asn2'] = probes.get('kind:asn4' if k['asn4'] else 'kind:asn2', 0) + 1
        if k['addpath']:
            probes['kind:addpath'] = probes.get('kind:addpath', 0) + 1
    nontrivial = any(u.get('attrs') and (u.get('nlri') or 'mpr' in u) for s in plan['scripts'] for u in s)
    return result(w, violations[:1], probes=probes, faults={'segmented_delivery': 1 if plan.get('split_p') else 0, 'interleaved_sessions': len(kinds)}, nontrivial=nontrivial, sample={'kinds': [_kd(k) for k in kinds], 'updates': probes['updates']})


def judge(w, plan, kinds, speakers, ctxs, sent, h, violations, probes) -> None:
    for i, k in enumerate(kinds):
        sp = speakers[i]
        sess = sp.sessions[0] if sp.sessions else None
        if sess is None or sess.state != 'established' or len(sp.sessions) != 1:
            errs = [l[3][:200] for l in w.logs if l[1] == 'ERROR'][:2]
            notif = [m for m in (sess.received if sess is not None and hasattr(sess, 'received') else []) if m[0] == 3][:1]
            violations.append(viol('C02/session-lost-on-well-formed-update', f'session {_kd(k)} did not survive well-formed UPDATEs: {errs} {notif}', kind=_kd(k), error=(errs[0][:70] if errs else '')))
            return
        lines = [ln for _, ln in h.lines if '"type": "update"' in ln and f'"peer": "{k["peer_ip"]}"' in ln]
        if len(lines) != len(sent[i]):
            violations.append(viol('C02/event-count', f'session {_kd(k)}: {len(sent[i])} UPDATEs sent, {len(lines)} update events reported', kind=_kd(k)))
            return
        table = R.PeerTable()
        for j, (msg, line) in enumerate(zip(sent[i], lines)):
            body = msg[19:]
            try:
                want = expected_event(body, ctxs[i], keep_aigp=bool(k.get('aigp')))
            except R.RefError as exc:
                raise RuntimeError(f'generator produced an UPDATE the reference refuses: {exc} {body.hex()[:200]}') from None
            table.apply(body, ctxs[i])
            try:
                got = parse_event(line)
            except Dup as exc:
                violations.append(viol('C02/event-unparseable', f'session {_kd(k)} UPDATE #{j}: duplicate key {exc} in {line[:300]}', kind=_kd(k), why=f'duplicate key {exc}'))
                return
            except (ValueError, KeyError, TypeError) as exc:
                violations.append(viol('C02/event-unparseable', f'session {_kd(k)} UPDATE #{j}: {type(exc).__name__} {exc} in {line[:300]}', kind=_kd(k), why=type(exc).__name__))
                return
            d = first_diff(got, want)
            if d:
                violations.append(viol('C02/event-differs-from-reference', f'session {_kd(k)} UPDATE #{j} ({body.hex()[:120]}...): {d}', kind=_kd(k), field=d.split(':')[0][:40]))
                return
        # Adj-RIB-In
        peer = w.peer_for(k['peer_ip'])
        got_rib = {}
        if peer is not None and peer.neighbor.rib is not None:
            for route in peer.neighbor.rib.incoming.cached_routes():
                fam = (int(route.nlri.afi), int(route.nlri.safi))
                try:
                    e = json.loads(str(route.nlri.json()), object_pairs_hook=_pairs)
                    attrs = json.loads('{' + route.attributes.json() + '}', object_pairs_hook=_pairs)
                except (ValueError, Dup) as exc:
                    violations.append(viol('C02/adj-rib-in-unrenderable', f'session {_kd(k)}: {exc}', kind=_kd(k)))
                    return
                key = canon_json_nlri(fam, e)
                got_rib[key[:5]] = {'labels': key[5], 'next_hop': str(route.nexthop), 'attrs': canon_json_attrs(attrs)}
        want_rib = {}
        for key, v in table.routes.items():
            want_rib[key] = {'labels': tuple(v['labels']) if v['labels'] is not None else None, 'next_hop': _nh_text(v['next_hop']), 'attrs': _rib_attrs(v['attrs'], bool(k.get('aigp')))}
        for key in sorted(set(got_rib) | set(want_rib), key=repr):
            g, x = got_rib.get(key), want_rib.get(key)
            if g != x:
                what = 'missing' if g is None else ('invented' if x is None else next((f for f in ('labels', 'next_hop', 'attrs') if g[f] != x[f]), '?'))
                violations.append(viol('C02/adj-rib-in-differs-from-reference', f'session {_kd(k)} route {key}: stored {str(g)[:300]} ; reference {str(x)[:300]}', kind=_kd(k), what=what))
                return
        probes['rib_routes'] = probes.get('rib_routes', 0) + len(want_rib)


def _rib_attrs(ca: dict, keep_aigp: bool = False) -> dict:
    """PeerTable stores refbgp.canonical_attrs(); bring it to the same shape as canon_ref_attrs"""
    c = dict(ca)
    if not keep_aigp:
        c.pop('aigp', None)
    if 'as_path' in c:
        c['as_path'] = _join(c['as_path'])
        if not c['as_path']:
            del c['as_path']
    if 'large_communities' in c:
        c['large_communities'] = sorted(set(c['large_communities']))
    unk = [(code, v) for flags, code, v in c.pop('unknown', []) if flags & 0x40]
    if unk:
        c['unknown'] = sorted(unk)
    return c


def _kd(k: dict) -> str:
    return f'{"iBGP" if k["peer_as"] == 65001 else "eBGP"} peer-as {k["peer_as"]} asn4={k["asn4"]} add-path={[FAM_TEXT[tuple(f)] for f in k["addpath"]]}{" extended-next-hop" if k.get("nexthop_ext") else ""}'


def shrink_candidates(plan: dict):
    if len(plan['kinds']) > 1:
        for i in range(len(plan['kinds'])):
            p = jclone(plan)
            del p['kinds'][i]
            del p['scripts'][i]
            yield p
    for i, sc in enumerate(plan['scripts']):
        n = len(sc)
        chunk = n
        while chunk >= 1:
            for start in range(0, n, chunk):
                keep = sc[:start] + sc[start + chunk :]
                if keep and len(keep) < n:
                    p = jclone(plan)
                    p['scripts'][i] = keep
                    yield p
            chunk //= 2
    for i, sc in enumerate(plan['scripts']):
        for j, u in enumerate(sc):
            for key in ('wd', 'mpu', 'mpr', 'nlri'):
                if key in u and len([x for x in ('wd', 'mpu', 'mpr', 'nlri') if x in u]) > 1:
                    p = jclone(plan)
                    del p['scripts'][i][j][key]
                    yield p
            for key in ('wd', 'nlri'):
                if len(u.get(key, [])) > 1:
                    p = jclone(plan)
                    p['scripts'][i][j][key] = u[key][:1]
                    yield p
            for key in ('mpr', 'mpu'):
                if key in u and len(u[key]['nlri']) > 1:
                    p = jclone(plan)
                    p['scripts'][i][j][key]['nlri'] = u[key]['nlri'][:1]
                    yield p
            for a in range(len(u.get('attrs', []))):
                if u['attrs'][a][0] not in ('origin', 'as_path', 'next_hop'):
                    p = jclone(plan)
                    del p['scripts'][i][j]['attrs'][a]
                    yield p
            if u.get('shuffle') or u.get('mp_first'):
                p = jclone(plan)
                p['scripts'][i][j]['shuffle'] = 0
                p['scripts'][i][j]['mp_first'] = False
                yield p
    if plan.get('split_p') or plan.get('gap'):
        p = jclone(plan)
        p['split_p'] = 0.0
        p['gap'] = 0.02
        yield p
    kn = plan['knobs']
    if kn.get('tick') != 0.002 or kn.get('drift') or kn.get('wall_step'):
        p = jclone(plan)
        p['knobs'].update({'tick': 0.002, 'drift': 0.0, 'wall_step': 0.0})
        yield p
