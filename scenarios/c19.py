"""C19 - decoding does not depend on what was decoded before."""

from __future__ import annotations

import re

from scenarios.common import R, Speaker, config_text, jclone, knobs, make_world, result, speaker_caps, viol

ID = 'C19'
LEVEL = 'exploration'
LEVEL_TEXT = (
    'seeded exploration of mixed message sequences over 2-3 concurrent sessions with different negotiated parameters (ASN4 on/off, '
    'ADD-PATH on/off, iBGP/eBGP), drawn from a small pool with many repeats and near-duplicates (identical attribute blocks across '
    'sessions, bytes that parse differently under 2-/4-byte AS or with/without path identifiers, a malformed variant followed by the '
    'well-formed one, End-of-RIBs), deliveries interleaved by the scheduler; oracle: every API event and the final Adj-RIB-In equal what '
    'the same tree produces for that message alone on a pristine process state under the same negotiated parameters.'
    ' Session kinds include AIGP enabled and a second local address; the OPEN events of both directions are compared too, with one session brought up late.'
)
LEVEL_NOTE = (
    'differential against ExaBGP itself by design (the property is history-independence, not correctness of decoding). The reference runs '
    'use the in-process pristine-state restore (exasim.isolate); a reported violation is re-executed in a fresh forked process before it is believed'
)
DESIGN_REF = 'DESIGN.md section 5, C19'
RULE = (
    'plan = session kinds x per-session message scripts (indices into the pool, with repeats) x inter-message gaps; non-trivial = at least '
    'one message body was decoded on two sessions of different kinds or twice on one session; distinct = schedule signatures'
)
ASSUMPTIONS = [
    'messages that reset the session when decoded alone are removed from that session script (session-destroying inputs are C03/C08/C10 business)',
    'envelope fields time / counter / host / pid / ppid are removed before comparing API events',
]

LOCAL = '10.0.0.1'
KINDS = {
    'asn4': {'peer_ip': '10.0.0.2', 'peer_as': 65002, 'asn4': True, 'addpath': False},
    'asn2': {'peer_ip': '10.0.0.3', 'peer_as': 65003, 'asn4': False, 'addpath': False},
    'ibgp-ap': {'peer_ip': '10.0.0.4', 'peer_as': 65001, 'asn4': True, 'addpath': True},
    'asn4-aigp': {'peer_ip': '10.0.0.5', 'peer_as': 65005, 'asn4': True, 'addpath': False, 'aigp': True},
    # a session from another local address: a next hop equal to the local address of one session is an ordinary one on the other
    'asn4-b': {'peer_ip': '10.0.1.2', 'local_ip': '10.0.1.1', 'peer_as': 65006, 'asn4': True, 'addpath': False},
}


def counts(tier: str):
    return (300, 75.0) if tier == 'quick' else (10000, 900.0)


def attr_blocks() -> list[bytes]:
    o = R.attribute(R.A_ORIGIN, b'\x00')
    nh = R.attribute(R.A_NEXT_HOP, bytes([10, 0, 0, 9]))
    p2 = R.attribute(R.A_AS_PATH, R.enc_as_path([(2, [65002, 65010])], False))  # 2-byte encoding
    p4 = R.attribute(R.A_AS_PATH, R.enc_as_path([(2, [65002, 65010])], True))  # 4-byte encoding
    p4b = R.attribute(R.A_AS_PATH, R.enc_as_path([(2, [65002, 4200000001])], True))
    # 8 bytes of AS numbers: four 2-byte ASNs or two 4-byte ASNs depending on the session
    amb = R.attribute(R.A_AS_PATH, bytes([2, 4]) + bytes([0, 1, 0, 2, 0, 3, 0, 4, 0, 5, 0, 6, 0, 7, 0, 8]))
    med = R.attribute(R.A_MED, (77).to_bytes(4, 'big'))
    lp = R.attribute(R.A_LOCAL_PREF, (200).to_bytes(4, 'big'))
    com = R.attribute(R.A_COMMUNITY, bytes([0xFD, 0xE8, 0, 1, 0xFD, 0xE8, 0, 2]))
    agg2 = R.attribute(R.A_AGGREGATOR, (65010).to_bytes(2, 'big') + bytes([10, 0, 0, 7]))
    agg4 = R.attribute(R.A_AGGREGATOR, (65010).to_bytes(4, 'big') + bytes([10, 0, 0, 7]))
    as4p = R.attribute(R.A_AS4_PATH, R.enc_as_path([(2, [4200000001, 65010])], True))
    unk = R.attribute(99, b'\x01\x02\x03', flags=0xC0)
    bad_origin = R.attribute(R.A_ORIGIN, b'\x00\x00')
    aigp = R.attribute(R.A_AIGP, b'\x01\x00\x0b' + (1000).to_bytes(8, 'big'))
    return [
        o + p2 + nh, o + p4 + nh, o + p4b + nh + med, o + amb + nh, o + p2 + nh + com + med, o + p4 + nh + lp + com,
        o + p2 + nh + agg2, o + p4 + nh + agg4, o + R.attribute(R.A_AS_PATH, R.enc_as_path([(2, [23456, 65010])], False)) + nh + as4p,
        o + p4 + nh + unk, bad_origin + p4 + nh, bad_origin + p2 + nh,
        # the same attribute value inside different blocks, on sessions that read it differently: an 8-byte AGGREGATOR (well-formed
        # with 4-byte AS numbers, malformed without), a 6-byte one (the other way round), AIGP (kept only where it was enabled)
        o + p2 + nh + agg4, o + p4 + nh + med + agg4, o + p4 + nh + agg2, o + p2 + nh + med + agg2,
        o + p4 + nh + aigp, o + p2 + nh + aigp, o + p4 + nh + med + aigp,
        # next hops that are the local address of one of the sessions
        o + p4 + R.attribute(R.A_NEXT_HOP, bytes([10, 0, 0, 1])), o + p4 + R.attribute(R.A_NEXT_HOP, bytes([10, 0, 1, 1])) + med,
    ]  # fmt: skip


def mp_messages() -> list[bytes]:
    """IPv6 unicast announces and withdraws carried with ordinary attributes (the attribute block holds MP_REACH / MP_UNREACH)"""
    o = R.attribute(R.A_ORIGIN, b'\x00')
    p2 = R.attribute(R.A_AS_PATH, R.enc_as_path([(2, [65002, 65010])], False))
    p4 = R.attribute(R.A_AS_PATH, R.enc_as_path([(2, [65002, 65010])], True))
    med = R.attribute(R.A_MED, (77).to_bytes(4, 'big'))
    n6a = bytes([48, 0x20, 0x01, 0x0D, 0xB8, 0, 1])
    n6b = bytes([48, 0x20, 0x01, 0x0D, 0xB8, 0, 2])
    nh6 = bytes.fromhex('20010db8000000000000000000000009')
    out = []
    for path in (p2, p4):
        for extra in (b'', med):
            out.append(R.build_update(attrs=o + path + extra + R.attribute(R.A_MP_UNREACH, bytes([0, 2, 1]) + n6a)))
            out.append(R.build_update(attrs=o + path + extra + R.attribute(R.A_MP_UNREACH, bytes([0, 2, 1]) + n6a + n6b)))
            out.append(R.build_update(attrs=o + path + extra + R.attribute(R.A_MP_REACH, bytes([0, 2, 1, 16]) + nh6 + b'\x00' + n6a + n6b)))
    out.append(R.build_update(attrs=R.attribute(R.A_MP_UNREACH, bytes([0, 2, 1]) + n6a)))
    return out


def nlri_sets() -> list[bytes]:
    return [
        bytes([24, 192, 0, 2]),
        bytes([24, 192, 0, 2, 24, 192, 0, 3]),
        bytes([0, 0, 0, 1, 24, 10, 0, 1]),  # path-id 1 + 10.0.1.0/24, or /0 /0 /0 /1 /10 without ADD-PATH
        bytes([0, 0, 0, 2, 24, 10, 0, 1]),
        bytes([16, 172, 16]),
    ]


def pool() -> list[bytes]:
    out = []
    for a in attr_blocks():
        for n in nlri_sets():
            out.append(R.build_update(attrs=a, nlri=n))
    for n in nlri_sets():
        out.append(R.build_update(withdrawn=n))
    # one UPDATE carrying both withdrawn routes and an announcement (legal, unusual), same attribute blocks as above
    for a in attr_blocks()[:6]:
        out.append(R.build_update(withdrawn=bytes([24, 203, 0, 113]), attrs=a, nlri=bytes([24, 192, 0, 2])))
        out.append(R.build_update(withdrawn=bytes([16, 172, 16]), attrs=a, nlri=bytes([24, 192, 0, 2, 24, 192, 0, 3])))
    out.append(R.eor())
    out.append(R.eor(2, 1))
    out.extend(mp_messages())
    return out


POOL = pool()


def generate(rng, tier: str, index: int) -> dict:
    kinds = rng.sample(list(KINDS), rng.randint(2, 3))
    favourites = rng.sample(range(len(POOL)), rng.randint(3, 8))
    scripts = {}
    for k in kinds:
        n = rng.randint(5, 60 if tier == 'thorough' else 30)
        scripts[k] = [[rng.choice(favourites) if rng.chance(0.8) else rng.randint(0, len(POOL) - 1), rng.choice([0.0, 0.0, 0.001, 0.01, 0.05, 0.15])] for _ in range(n)]
    return {'micro_seed': rng.randint(1, 1 << 48), 'knobs': knobs(rng), 'scripts': scripts, 'late': rng.choice(kinds) if rng.chance(0.3) else None}


_ENV = re.compile(r'"(time|counter|pid|ppid)"\s*:\s*[0-9.]+,\s*|"host"\s*:\s*"[^"]*",\s*')


def norm_event(line: str) -> str:
    return _ENV.sub('', line)


def simulate(plan: dict, scripts: dict, seed_salt: int = 0) -> dict:
    """run the real reactor with one neighbor per kind; returns per kind {'events', 'rib', 'closed'}"""
    p2 = jclone(plan)
    p2['micro_seed'] = plan['micro_seed'] + seed_salt
    w = make_world(p2)
    confs, speakers = [], {}
    for k in scripts:
        kd = KINDS[k]
        confs.append(
            {
                'peer_ip': kd['peer_ip'], 'local_ip': kd.get('local_ip', LOCAL), 'local_as': 65001, 'peer_as': kd['peer_as'], 'router_id': LOCAL, 'hold': 180,
                'families': [(1, 1), (2, 1)], 'adj-rib-in': True, 'caps': {'route-refresh': True, 'asn4': kd['asn4'], 'add-path': 'send/receive' if kd['addpath'] else 'disable', 'aigp': bool(kd.get('aigp'))},
                'addpath_families': [(1, 1)] if kd['addpath'] else None,
                'api': {'processes': ['h1'], 'receive': ['parsed', 'update', 'open'], 'send': ['parsed', 'open']},
            }
        )  # fmt: skip
        spec = {'asn': kd['peer_as'], 'families': [(1, 1), (2, 1)], 'asn4': kd['asn4'], 'refresh': k != 'asn2'}
        if kd['addpath']:
            spec['addpath'] = [(1, 1, 3)]
        caps = speaker_caps(spec)
        if k in ('asn2', 'ibgp-ap'):
            caps.append((128, b''))  # the pre-RFC (Cisco) route-refresh code: alone on one session, next to code 2 on another
        speakers[k] = Speaker(w, k, kd['peer_ip'], kd['peer_as'], kd['peer_ip'], kd.get('local_ip', LOCAL), hold=180, caps=caps)
        if plan.get('late') == k and len(scripts) > 1:
            # this session only comes up once the others have exchanged their OPENs
            speakers[k].accept_mode = 'refuse'
            w.at(1.5, lambda sp=speakers[k]: setattr(sp, 'accept_mode', 'accept'))
    w.boot(config_text([{'name': 'h1'}], confs))
    h = w.procs.helper('h1')
    started = set()

    def start(k):
        def hook(sess) -> None:
            if k in started:
                return
            started.add(k)
            t = 0.2
            for idx, gap in scripts[k]:
                t += gap
                w.after(t, lambda idx=idx, sess=sess: sess.send(POOL[idx]) if sess.state != 'closed' else None)

        return hook

    for k, sp in speakers.items():
        sp.on_established.append(start(k))
    total = max((sum(g for _, g in sc) for sc in scripts.values()), default=0.0)
    alive = {}

    def snapshot_alive() -> None:
        for k, sp in speakers.items():
            first = sp.sessions[0] if sp.sessions else None
            alive[k] = first is not None and first.state == 'established' and len(sp.sessions) == 1

    late = 8.0 if plan.get('late') in scripts and len(scripts) > 1 else 0.0  # exabgp's connect retry after the refusals
    w.at(total + late + 3.5, snapshot_alive)
    w.run(until=total + late + 4.0)
    out = {}
    for k, sp in speakers.items():
        kd = KINDS[k]
        ev = [norm_event(ln) for _, ln in h.lines if '"type": "update"' in ln and f'"peer": "{kd["peer_ip"]}"' in ln]
        peer = w.peer_for(kd['peer_ip'])
        rib = {}
        if peer is not None and peer.neighbor.rib is not None:
            for route in peer.neighbor.rib.incoming.cached_routes():
                rib[str(route.nlri)] = route.extensive()
        opens = [norm_event(ln) for _, ln in h.lines if '"type": "open"' in ln and f'"peer": "{kd["peer_ip"]}"' in ln]
        out[k] = {'events': ev, 'rib': rib, 'closed': not alive.get(k, False), 'opens': opens}
    out['_world'] = w
    return out


def execute(plan: dict) -> dict:
    from exasim import isolate

    if isolate._SNAP is None:
        from exasim.world import preload

        preload()
        isolate.snapshot()
    scripts = {k: [list(x) for x in v] for k, v in plan['scripts'].items()}
    # 1. every (kind, message) decoded alone on a pristine process state
    alone: dict = {}
    probes = {'reference_runs': 0, 'messages': 0, 'repeats_same_session': 0, 'bodies_on_two_kinds': 0, 'dropped_resetting_messages': 0}
    for k, sc in scripts.items():
        for idx in sorted({i for i, _ in sc}):
            isolate.restore()
            r = simulate(plan, {k: [[idx, 0.0]]}, seed_salt=1000 + idx)
            probes['reference_runs'] += 1
            alone[(k, idx)] = {'events': r[k]['events'], 'rib': r[k]['rib'], 'closed': r[k]['closed']}
    # messages that end the session when decoded alone are not sequence material
    for k in scripts:
        before = len(scripts[k])
        scripts[k] = [x for x in scripts[k] if not alone[(k, x[0])]['closed']]
        probes['dropped_resetting_messages'] += before - len(scripts[k])
    # 2. each session alone with its whole script (reference for the final Adj-RIB-In: no other session interferes)
    solo = {}
    for k, sc in scripts.items():
        isolate.restore()
        solo[k] = simulate(plan, {k: sc}, seed_salt=77)[k]
        probes['reference_runs'] += 1
    # 3. the mixed run
    isolate.restore()
    main = simulate(plan, scripts)
    w = main['_world']
    violations = []
    recorded: list = []
    bodies: dict = {}
    for k, sc in scripts.items():
        probes['messages'] += len(sc)
        seen = set()
        for idx, _ in sc:
            if idx in seen:
                probes['repeats_same_session'] += 1
            seen.add(idx)
            bodies.setdefault(idx, set()).add(k)
    probes['bodies_on_two_kinds'] = sum(1 for v in bodies.values() if len(v) > 1)
    for k, sc in scripts.items():
        if main[k]['closed']:
            violations.append(viol('C19/session-lost-in-sequence', f'session {k}: every message of the sequence keeps the session up when decoded alone, but the session ended during the sequence'))
            break
        if main[k]['opens'] != solo[k]['opens']:
            flat = lambda evs: [e.replace('"variant": "Cisco"', '"variant": "RFC"') for e in evs]  # noqa: E731
            only_variant = flat(main[k]['opens']) == flat(solo[k]['opens'])
            v = viol('C19/open-event-depends-on-history', f'session {k}: the OPENs of the session are reported as {str(main[k]["opens"])[-400:]} next to other sessions, and as {str(solo[k]["opens"])[-400:]} when the session is the only one', kind=k, only_route_refresh_variant=only_variant)
            if only_variant:
                recorded.append(v)  # a recorded finding (known_findings.jsonl): everything else in the run is still judged
            else:
                violations.append(v)
                break
        expected_events = []
        for idx, _ in sc:
            expected_events.extend(alone[(k, idx)]['events'])
        expected_rib = solo[k]['rib']
        got = main[k]['events']
        if got != expected_events:
            i = next((j for j in range(min(len(got), len(expected_events))) if got[j] != expected_events[j]), min(len(got), len(expected_events)))
            violations.append(
                viol(
                    'C19/event-depends-on-history',
                    f'session {k} event #{i}: in the sequence -> {got[i][:300] if i < len(got) else None!r} ; decoded alone -> {expected_events[i][:300] if i < len(expected_events) else None!r}',
                    kind=k, index=i, got=len(got), expected=len(expected_events),
                )
            )  # fmt: skip
            break
        if main[k]['rib'] != expected_rib:
            diff = [f'{key}: mixed={main[k]["rib"].get(key)!r} session-alone={expected_rib.get(key)!r}' for key in sorted(set(main[k]['rib']) | set(expected_rib)) if main[k]['rib'].get(key) != expected_rib.get(key)]
            violations.append(viol('C19/adj-rib-in-depends-on-history', f'session {k}: ' + '; '.join(diff[:3]), kind=k))
            break
    nontrivial = probes['repeats_same_session'] + probes['bodies_on_two_kinds'] > 0
    violations.extend(recorded[:1])
    return result(w, violations, faults={'interleaved_sessions': len(scripts)}, probes=probes, nontrivial=nontrivial, sample={'kinds': list(scripts), 'messages': probes['messages']})


def _withdrawn_keys(idx: int, kd: dict) -> list[str]:
    """keys (as exabgp prints NLRIs) withdrawn by pool message idx under this session kind, via the reference decoder"""
    body = POOL[idx][19:]
    try:
        d = R.decode_update(body, R.Ctx(asn4=kd['asn4'], addpath={(1, 1): kd['addpath']}))
    except R.RefError:
        return []
    out = []
    for n in d['withdraw']:
        out.append(n['prefix'])
    return out


def shrink_candidates(plan: dict):
    for k in list(plan['scripts']):
        if len(plan['scripts']) > 1:
            p = jclone(plan)
            del p['scripts'][k]
            yield p
        sc = plan['scripts'][k]
        n = len(sc)
        chunk = n
        while chunk >= 1:
            for start in range(0, n, chunk):
                keep = sc[:start] + sc[start + chunk :]
                if len(keep) < n:
                    p = jclone(plan)
                    p['scripts'][k] = keep
                    yield p
            chunk //= 2
    kn = plan['knobs']
    if kn.get('tick') != 0.002 or kn.get('drift') or kn.get('wall_step'):
        p = jclone(plan)
        p['knobs'].update({'tick': 0.002, 'drift': 0.0, 'wall_step': 0.0})
        yield p
