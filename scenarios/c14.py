"""C14 - API commands: same order, one acknowledgement each, no side effects on error."""

from __future__ import annotations

import re

from scenarios import ribworld as RW
from scenarios.common import R, Speaker, config_text, jclone, knobs, make_world, result, speaker_caps, viol

ID = 'C14'
LEVEL = 'exploration'
LEVEL_TEXT = (
    'seeded exploration of command streams (valid announce/withdraw with every selector form, unknown verbs, unparsable routes, '
    'truncated lines, comments, groups, ack enable/disable/silence, show commands, sync mode) x chunkings of the helper byte stream '
    '(cuts inside tokens, many lines per read, lines spanning reads) x reply-pipe back-pressure (EAGAIN, partial writes) x session loss '
    'in sync mode, through the real Processes/API/dispatcher/handlers; oracle: executed == written (order), one terminal reply per '
    'acknowledged command in order with the expected done/error, and every neighbor Adj-RIB-Out == the table obtained by applying only '
    'accepted commands to only the neighbors an independent selector matcher selects.'
    ' API version 4 runs mixing both spellings, groups with a failing member, multi-line groups, a neighbor served by a second silent helper, and a helper that dies with an unterminated line behind it and is respawned.'
    ' `announce eor`, a neighbor whose peer refuses every connection, one-line groups opened by an `attributes` line whose extended communities every member must carry (and only those).'
)
LEVEL_NOTE = 'trusts: the reference selector matcher and command-outcome table in this file (only commands with an unambiguous outcome are judged), simulated pipes'
DESIGN_REF = 'DESIGN.md section 5, C14'
RULE = (
    'plan = 2-4 neighbors with distinct peer-as/router-id/local-as x 5-60 command lines x chunk plan x pipe capacity schedule x '
    'optional sync-mode session loss; non-trivial = some line was split across reads or several lines shared a read, or the reply pipe '
    'pushed back; distinct = schedule signatures'
)
ASSUMPTIONS = [
    'API v6 grammar; commands whose expected outcome is ambiguous are judged only for "exactly one terminal reply"',
    'a selector matches a neighbor iff its address term is * or the neighbor address and every key term equals the neighbor value; bracket lists are unions',
    'liveness of replies is judged after faults stop with a 60 simulated-second bound',
]

LOCAL = '10.0.0.1'
LOCAL6 = '2001:db8::ff'


def local_of(nb) -> str:
    return LOCAL6 if ':' in nb['peer_ip'] else LOCAL


def counts(tier: str):
    return (900, 75.0) if tier == 'quick' else (20000, 900.0)


# ------------------------------------------------------------------ reference selector matcher


def sel_text(sel) -> str:
    """sel: '*' | {'ip':..,'terms':{k:v}} | [ {..}, {..} ]"""
    def one(d):
        return d['ip'] + ''.join(f' {k} {v}' for k, v in d.get('terms', {}).items())

    if sel == '*':
        return '*'
    if isinstance(sel, list):
        return '[' + ', '.join(one(d) for d in sel) + ']'
    return one(sel)


def sel_text_v4(sel) -> str | None:
    """the version-4 spelling: `neighbor <ip> [key value]...`, several joined by `, `; every neighbor = no prefix at all.
    None when this selector has no v4 spelling (the `*` address with terms)"""
    def one(d):
        return 'neighbor ' + d['ip'] + ''.join(f' {k} {v}' for k, v in d.get('terms', {}).items())

    if sel == '*':
        return ''
    defs = sel if isinstance(sel, list) else [sel]
    if any(d['ip'] == '*' for d in defs):
        return None
    return ', '.join(one(d) for d in defs)


V4_QUERY = {'system version': 'version', 'rib show out': 'show adj-rib out', 'rib show in': 'show adj-rib in', 'session ping': 'ping'}
V4_ACK = {'enable': 'enable-ack', 'disable': 'disable-ack', 'silence': 'silence-ack'}


def matches(d: dict, nb: dict) -> bool:
    if nb.get('svc', 'h1') != 'h1':
        return False  # the neighbor is served by another helper process: nothing the first one writes selects it
    if d['ip'] != '*' and d['ip'] != nb['peer_ip']:
        return False
    vals = {'peer-as': str(nb['peer_as']), 'local-as': str(nb['local_as']), 'router-id': nb['router_id'], 'local-ip': local_of(nb)}
    for k, v in d.get('terms', {}).items():
        if vals.get(k) != str(v):
            return False
    return True


def selected(sel, nbrs) -> list[int]:
    if sel == '*':
        return [nb['idx'] for nb in nbrs if nb.get('svc', 'h1') == 'h1']
    defs = sel if isinstance(sel, list) else [sel]
    return [nb['idx'] for nb in nbrs if any(matches(d, nb) for d in defs)]


# ------------------------------------------------------------------ generation


def gen_selector(rng, nbrs):
    r = rng.random()
    nb = rng.choice(nbrs)
    if r < 0.3:
        return '*'
    if r < 0.5:
        return {'ip': nb['peer_ip']}
    if r < 0.7:
        k = rng.choice(['peer-as', 'router-id', 'local-as'])
        right = {'peer-as': nb['peer_as'], 'router-id': nb['router_id'], 'local-as': nb['local_as']}[k]
        wrong = {'peer-as': 64999, 'router-id': '9.9.9.9', 'local-as': 64998}[k]
        return {'ip': nb['peer_ip'], 'terms': {k: right if rng.chance(0.6) else wrong}}
    if r < 0.8:
        return {'ip': '10.9.9.9'}  # nobody
    if r < 0.9:
        other = rng.choice(nbrs)
        return [{'ip': nb['peer_ip']}, {'ip': other['peer_ip'], 'terms': {'peer-as': other['peer_as'] if rng.chance(0.7) else 64999}}]
    return [{'ip': '*', 'terms': {'peer-as': rng.choice([n['peer_as'] for n in nbrs] + [64999])}}]


def generate(rng, tier: str, index: int) -> dict:
    nn = rng.randint(2, 4)
    nbrs = []
    # address sets in which one address textually continues another (a selector must not confuse them)
    addrs = rng.choice([None, None, ['2001:db8::1', '2001:db8::1:5', '2001:db8::2', '2001:db8::1:50'], ['10.0.0.2', '10.0.0.20', '10.0.0.22', '110.0.0.2']])
    for i in range(nn):
        ip = addrs[i] if addrs else (RW.PEER_IPS[i] if i < 3 else '10.0.0.5')
        nbrs.append({'idx': i, 'peer_ip': ip, 'peer_as': 65100 + i, 'local_as': rng.choice([65001, 65011]), 'router_id': f'10.0.1.{i + 1}', 'addpath': False})
    if rng.chance(0.35):
        # the last neighbor belongs to a second helper process (`api { processes [ h2 ]; }`) that stays silent: whatever the
        # first helper writes - `peer *`, a selector naming it, a group - must leave it alone
        nbrs[-1]['svc'] = 'h2'
    if rng.chance(0.3):
        # one neighbor's peer refuses every connection: commands naming it are still served (its RIB changes), and what needs
        # an established session (`announce eor`) fails with one `error`
        rng.choice(nbrs)['down'] = True
    variants = RW.gen_variants(rng, 3)
    prefixes = rng.sample(RW.API_PREFIXES, 4)
    cmds = []
    ncmd = rng.randint(5, 60 if tier == 'thorough' else 30)
    for _ in range(ncmd):
        r = rng.random()
        route = {'p': rng.choice(prefixes), 'pid': None, 'nh': rng.choice(['10.0.0.9', '10.0.0.77'] + ([] if addrs and ':' in addrs[0] else ['self'])), 'v': rng.randint(0, 2)}
        if r < 0.35:
            cmds.append({'k': 'ann', 'sel': gen_selector(rng, nbrs), 'route': route})
        elif r < 0.5:
            cmds.append({'k': 'wd', 'sel': gen_selector(rng, nbrs), 'route': route})
        elif r < 0.56:
            cmds.append({'k': 'bad-verb', 'text': rng.choice(['frobnicate route 10.0.0.0/24', 'peer * frobnicate route 10.0.0.0/24 next-hop 1.1.1.1', 'announce', 'peer', 'peer * announce', 'rib explode', 'session ack maybe'])})
        elif r < 0.64:
            cmds.append({'k': 'bad-route', 'sel': gen_selector(rng, nbrs), 'text': rng.choice(['route 10.0.0.0/33 next-hop 10.0.0.9', 'route 10.0.0.0/24 next-hop 999.1.1.1', 'route 300.0.0.0/24 next-hop 10.0.0.9', 'route 10.0.0.0/24 next-hop 10.0.0.9 med banana', 'route 10.0.0.0/24 next-hop 10.0.0.9 origin sideways', 'route next-hop 10.0.0.9'])})
        elif r < 0.68:
            cmds.append({'k': 'comment', 'text': '# ' + rng.choice(['hello', 'peer * announce route 10.66.0.0/24 next-hop 10.0.0.9', ''])})
        elif r < 0.76:
            cmds.append({'k': 'query', 'text': rng.choice(['system version', 'rib show out', 'peer list', 'rib show in', 'session ping'])})
        elif r < 0.82:
            cmds.append({'k': 'ack', 'mode': rng.choice(['enable', 'disable', 'silence', 'enable'])})
        elif r < 0.9:
            subs = [{'op': rng.choice(['ann', 'ann', 'wd']), 'route': {'p': rng.choice(prefixes), 'pid': None, 'nh': '10.0.0.9', 'v': rng.randint(0, 2)}} for _ in range(rng.randint(2, 4))]
            if rng.chance(0.4):
                # a member that parses but cannot be announced (no next hop), one that does not parse, an unknown action:
                # each must leave every RIB alone while the other members are served
                bad = rng.choice([f'announce route 10.78.{len(cmds) % 250}.0/24 med 100', f'announce route 10.78.{len(cmds) % 250}.0/33 next-hop 10.0.0.9', f'frobnicate route 10.78.{len(cmds) % 250}.0/24 next-hop 10.0.0.9',
                                  f'announce ipv4 nlri-mpls 10.78.{len(cmds) % 250}.0/24 next-hop 10.0.0.9'])  # (the last one parses and is refused by the validation step: no label)
                subs.insert(rng.randint(0, len(subs)), {'op': 'bad', 'text': bad})
            cmds.append({'k': rng.choice(['group', 'group', 'mgroup']), 'sel': gen_selector(rng, nbrs), 'subs': subs})
            f = rng.fork('group-shared')  # (a side stream: the plans generated so far keep their draws)
            if f.chance(0.35) and cmds[-1]['k'] == 'group':  # (the one-line form only: a bare `attributes` line is no command)
                # `attributes ...` first in the group: every member announced after it carries these too, and only these
                cmds[-1]['shared_ext'] = [900 + len(cmds) % 90]
        elif r < 0.93:
            cmds.append({'k': 'long', 'n': rng.choice([5000, 20000, 70000])})
        elif r < 0.96:
            cmds.append({'k': 'eor', 'sel': gen_selector(rng, nbrs), 'fam': rng.choice(['ipv4 unicast', 'ipv4 unicast', 'ipv6 unicast', 'ipv4 flow'])})
        else:
            cmds.append({'k': 'blank'})
    chunks = [rng.choice([1, 2, 3, 5, 7, 16, 40, 100, 1000, 16384]) for _ in range(rng.randint(0, 200))]
    emit = [rng.choice([1, 3, 10, 50, 400, 100000]) for _ in range(rng.randint(1, 40))]
    plan = {
        'micro_seed': rng.randint(1, 1 << 48), 'knobs': knobs(rng), 'neighbors': nbrs, 'variants': variants, 'cmds': cmds,
        'chunks': chunks, 'emit': emit, 'emit_gap': rng.choice([0.0, 0.001, 0.01, 0.2]),
        'pipe': rng.choice([None, None, {'capacity': rng.choice([1, 5, 30, 200]), 'refill_every': rng.choice([0.01, 0.2, 1.0]), 'eagain': rng.randint(0, 5)}]),
        'sync_loss': rng.chance(0.12),
    }  # fmt: skip
    # API version 4: the action-first spelling (`neighbor <ip> announce ...`, `announce ...`, `enable-ack`, `show adj-rib out`) mixed,
    # command by command, with the version-6 spelling the version-4 dispatcher also takes
    plan['version'] = rng.choice([6, 6, 4])
    if plan['version'] == 4:
        plan['knobs'] = dict(plan['knobs'], env={'api.version': 4})
        for c in plan['cmds']:
            c['v4'] = rng.chance(0.6)
            if c['k'] == 'mgroup':
                c['k'] = 'group'  # `group start` is not a version-4 command; the one-line form goes through its `peer` prefix
    # the helper dies with an unterminated line (and possibly an open group) behind it and is respawned under the same name
    plan['crash'] = None if plan['sync_loss'] or not rng.chance(0.15) else {'group': rng.chance(0.4), 'cut': rng.randint(1, 50), 'exit_after': rng.choice([0.0, 0.05, 0.5])}
    if plan['crash'] and rng.fork('crash-with-exit').chance(0.4):
        plan['crash']['with_exit'] = True  # the helper is gone at the very instant its last lines become readable: they are still commands
    if plan['pipe'] and any(c['k'] == 'long' for c in cmds):
        # a very long line is echoed in the error reply (about 70 kB): the slow pipe must be able to drain it within the run
        plan['pipe']['capacity'] = max(plan['pipe']['capacity'], 200)
        plan['pipe']['refill_every'] = min(plan['pipe']['refill_every'], 0.2)
    return plan


def build_commands(plan: dict):
    """-> list of (text, expect, effects, acked) following the ack state machine"""
    nbrs = plan['neighbors']
    variants = plan['variants']
    out = []
    ack = True
    for c in plan['cmds']:
        k = c['k']
        expect = None
        effects = []
        text = ''
        acked = ack
        if k in ('ann', 'wd'):
            sel = selected(c['sel'], nbrs)
            r = dict(c['route'])
            if k == 'wd':
                r['v'] = None
            text = f'peer {sel_text(c["sel"])} {"announce" if k == "ann" else "withdraw"} {RW.route_text(r, variants)}'
            if c.get('v4') and sel_text_v4(c['sel']) is not None:
                text = f'{sel_text_v4(c["sel"])} {"announce" if k == "ann" else "withdraw"} {RW.route_text(r, variants)}'.strip()
            if sel:
                expect = 'done'
                effects = [(i, k, c['route']) for i in sel]
            else:
                expect = 'error'
        elif k == 'bad-verb':
            text = c['text']
            expect = 'error'
        elif k == 'bad-route':
            text = f'peer {sel_text(c["sel"])} announce {c["text"]}'
            expect = 'error'
        elif k == 'comment':
            text = c['text']
            expect = None
        elif k == 'query':
            text = V4_QUERY.get(c['text'], c['text']) if c.get('v4') else c['text']
            expect = 'done'
        elif k == 'ack':
            text = V4_ACK[c['mode']] if c.get('v4') else f'session ack {c["mode"]}'
            if c['mode'] == 'enable':
                ack = True
                acked = True
                expect = 'done'
            elif c['mode'] == 'disable':
                ack = False
                acked = True  # this command itself is answered (forced), later ones are not
                expect = 'done'
            else:
                ack = False
                acked = False
        elif k in ('group', 'mgroup'):
            sel = selected(c['sel'], nbrs)
            parts = []
            for s in c['subs']:
                if s['op'] == 'bad':
                    parts.append(s['text'])
                    continue
                r = dict(s['route'])
                if s['op'] == 'wd':
                    r['v'] = None
                parts.append(('announce ' if s['op'] == 'ann' else 'withdraw ') + RW.route_text(r, variants))
            has_bad = any(s['op'] == 'bad' for s in c['subs'])
            good = [dict(s, route=dict(s['route'], shared_ext=c.get('shared_ext'))) for s in c['subs'] if s['op'] != 'bad']
            if c.get('shared_ext'):
                parts.insert(0, 'attributes extended-community [ ' + ' '.join(f'target:64999:{n}' for n in c['shared_ext']) + ' ]')
            if k == 'mgroup':
                # the multi-line form: bare members are buffered (one acknowledgement each) and served, for every neighbor, by `group end`
                out.append({'text': 'group start', 'expect': 'done', 'effects': [], 'acked': acked, 'k': 'mgroup-start'})
                for p_ in parts:
                    out.append({'text': p_, 'expect': None, 'effects': [], 'acked': acked, 'k': 'mgroup-member'})
                text = 'group end'
                expect = None if has_bad else 'done'
                effects = [(nb['idx'], s['op'], s['route']) for s in good for nb in nbrs if nb.get('svc', 'h1') == 'h1']
                out.append({'text': text, 'expect': expect, 'effects': effects, 'acked': acked, 'k': 'mgroup-end'})
                continue
            text = f'peer {sel_text(c["sel"])} group ' + ' ; '.join(parts)
            if sel:
                expect = None if has_bad else 'done'
                effects = [(i, s['op'], s['route']) for s in good for i in sel]
            else:
                expect = 'error'
        elif k == 'eor':
            sel = selected(c['sel'], nbrs)
            text = f'peer {sel_text(c["sel"])} announce eor {c["fam"]}'
            # with an established session among the selected: `done` (or `error` while it is still coming up); with none: `error`.
            # Always exactly one terminal reply, and never a change to a RIB
            expect = 'error' if not [i for i in sel if not nbrs[i].get('down')] else None
        elif k == 'long':
            text = 'peer * announce route ' + 'x' * c['n']
            expect = 'error'
        elif k == 'blank':
            text = ''  # an empty line is handed to the dispatcher like a comment and acknowledged
            expect = None
        out.append({'text': text, 'expect': expect, 'effects': effects, 'acked': acked, 'k': k})
    return out


def shared_of(cmds, idx: int) -> dict:
    """route key -> the extended communities the `attributes` line of its group added (last announce wins)"""
    out: dict = {}
    for c in cmds:
        for i, op, r in c['effects']:
            if i != idx:
                continue
            key = RW.key_of(r['p'], None, False)
            if op == 'ann' and r.get('shared_ext'):
                out[key] = [RW.ext_hex(64999, n) for n in r['shared_ext']]
            else:
                out.pop(key, None)
    return out


def _norm(s: str) -> str:
    return re.sub(r'\s+', '', s)


def execute(plan: dict) -> dict:
    w = make_world(plan)
    nbrs = plan['neighbors']
    variants = plan['variants']
    speakers = []
    confs = []
    for nb in nbrs:
        speakers.append(Speaker(w, f'p{nb["idx"]}', nb['peer_ip'], nb['peer_as'], f'10.9.0.{nb["idx"] + 1}', local_of(nb), hold=90, caps=speaker_caps({'asn': nb['peer_as'], 'families': [(1, 1), (1, 4)]})))
        if nb.get('down'):
            speakers[-1].accept_mode = 'refuse'
        confs.append(
            {
                'peer_ip': nb['peer_ip'], 'local_ip': local_of(nb), 'local_as': nb['local_as'], 'peer_as': nb['peer_as'], 'router_id': nb['router_id'], 'hold': 90,
                'families': [(1, 1), (1, 4)], 'adj-rib-out': True, 'api': {'processes': [nb.get('svc', 'h1')]},
            }
        )  # fmt: skip
    w.boot(config_text([{'name': 'h1'}] + ([{'name': 'h2'}] if any(nb.get('svc') == 'h2' for nb in nbrs) else []), confs))
    h = w.procs.helper('h1')
    h.chunk_plan = list(plan['chunks'])
    cmds = build_commands(plan)
    stream = ''.join(c['text'] + '\n' for c in cmds).encode()

    probes = {'api_v4_runs': int(plan.get('version') == 4), 'commands_in_v4_spelling': sum(1 for c in plan['cmds'] if c.get('v4')), 'lines': len(cmds), 'reads': 0, 'eagain': 0, 'partial_writes': 0, 'sync_loss': 0, 'line_split_across_reads': 0, 'multi_line_reads': 0}
    faults = {'pipe_backpressure': int(bool(plan['pipe'])), 'chunked_reads': int(bool(plan['chunks'])), 'sync_session_loss': 0}

    # deliver the helper's output in pieces
    def start_stream() -> None:
        h.emit(stream, visible=False)
        t = 0.0
        off = 0
        i = 0
        pieces = []
        while off < len(stream):
            n = plan['emit'][i % len(plan['emit'])]
            i += 1
            off += n
            pieces.append(n)
        gap = min(plan['emit_gap'], 20.0 / max(1, len(pieces)))  # the whole stream is written within 20 s
        for n in pieces:
            w.after(t, lambda n=n: h.make_visible(n))
            t += gap
        w.after(t + 0.01, lambda: h.make_visible(None))

    if plan['pipe']:
        h.capacity = plan['pipe']['capacity']
        h.eagain_budget = plan['pipe']['eagain']

        def refill() -> None:
            h.capacity = (h.capacity or 0) + plan['pipe']['capacity'] * (1 + w.chooser.randint(0, 400, 'refill', int(w.loop.mono * 1000)))
            w.after(plan['pipe']['refill_every'], refill)

        w.after(plan['pipe']['refill_every'], refill)

    w.at(2.0, start_stream)

    if plan.get('sync_loss'):
        # a second stream in sync mode whose session is lost before the flush
        def sync_part() -> None:
            faults['sync_session_loss'] += 1
            probes['sync_loss'] += 1
            s = speakers[0].established()
            if s is not None:
                s.conn.set_window(0)  # nothing can be flushed
            h.emit(b'session ack enable\nsession sync enable\npeer * announce route 10.77.0.0/24 next-hop 10.0.0.9 med 100\n')
            w.after(1.0, lambda: s.reset() if s is not None and s.state != 'closed' else None)
            w.after(3.0, lambda: h.emit(b'session sync disable\nsystem version\n'))

        st_sync = {'at': None}

    CRASH_TAIL = ['session ack enable', 'peer * announce route 10.80.0.0/24 next-hop 10.0.0.9 med 100', 'system version']

    def crash_part() -> None:
        cr = plan['crash']
        faults['helper_crash'] = faults.get('helper_crash', 0) + 1
        state['gen_before'] = h.generation
        state['crash_at'] = w.loop.mono
        pre = b'session ack enable\n'
        if cr['group'] and plan.get('version', 6) != 4:
            # (under API version 4 a bare `announce route` is a complete command for every neighbor, not a member of the open group)
            pre += b'group start\nannounce route 10.79.1.0/24 next-hop 10.0.0.9 med 100\n'
        partial = b'peer * announce route 10.79.0.0/24 next-hop 10.0.0.9 med 100 community [ 65000:1 65000:2 ]'[: 20 + cr['cut']]
        state['crash_api'] = len(w.api_log)
        state['crash_pre'] = [ln for ln in pre.decode().split('\n') if ln]
        h.emit(pre + partial)
        if cr.get('with_exit'):
            # (the scripted small reads go on: what the dead writer left behind takes several reads, as more than 16 KiB would)
            h.exit(1)
        else:
            w.after(0.3 + cr['exit_after'], lambda: h.exit(1))

        def second_life() -> None:
            if h.generation == state['gen_before']:
                if w.loop.mono < state['crash_at'] + 20.0:
                    w.after(0.5, second_life)
                return
            probes['respawned'] = probes.get('respawned', 0) + 1
            state['respawn_lines'] = len(h.lines)
            state['respawn_api'] = len(w.api_log)
            h.emit(('\n'.join(CRASH_TAIL) + '\n').encode())

        w.after(1.5 + cr['exit_after'], second_life)

    def check_crash() -> None:
        if 'respawn_lines' not in state:
            probes['not_respawned'] = 1
            return
        before = [_norm(c) for _, _, svc, c in w.api_log[state.get('crash_api', 0) : state['respawn_api']] if svc == 'h1']
        if before[: len(state.get('crash_pre', []))] != [_norm(c) for c in state.get('crash_pre', [])]:
            violations.append(viol('C14/executed-differs-from-written', f'the helper wrote {state.get("crash_pre")} (complete lines) and an unterminated one, then died{" at once" if plan["crash"].get("with_exit") else ""}: exabgp executed {before[:4]}', index=0, written=len(state.get('crash_pre', [])), executed=len(before)))
            return
        lines2 = [ln for _, ln in h.lines[state['respawn_lines'] :]]
        terms = [ln for ln in lines2 if ln in ('done', 'error')]
        executed = [_norm(c) for _, _, svc, c in w.api_log[state['respawn_api'] :] if svc == 'h1']
        if executed != [_norm(c) for c in CRASH_TAIL]:
            violations.append(viol('C14/executed-differs-from-written', f'after the helper was respawned it wrote {CRASH_TAIL} but exabgp executed {[c for _, _, svc, c in w.api_log[state["respawn_api"] :]][:4]} (the dead instance left an unterminated line behind)', index=0, written=len(CRASH_TAIL), executed=len(executed)))
            return
        if terms != ['done', 'done', 'done']:
            violations.append(viol('C14/wrong-reply', f'after the respawn: 3 valid commands, terminal replies {terms}', kind='respawn', expected='done', got=str(terms)))
            return
        for nb in nbrs:
            peer = w.peer_for(nb['peer_ip'])
            if peer is None:
                continue
            rep = RW.reported_table(peer.neighbor, False)
            stale = [RW.fmt_key(k) for k in rep if k[3].startswith('10.79.')]
            if nb.get('svc', 'h1') != 'h1':
                if rep:
                    violations.append(viol('C14/rib-side-effect', f'neighbor {nb["peer_ip"]} is served by the helper h2 only and holds {[RW.fmt_key(k) for k in rep][:3]} after commands of h1', neighbor=nb['idx']))
                    return
                continue
            if stale or RW.key_of('10.80.0.0/24', None, False) not in rep:
                violations.append(viol('C14/rib-side-effect', f'neighbor {nb["peer_ip"]} after the respawn: commands of the dead instance applied {stale}, 10.80.0.0/24 present: {RW.key_of("10.80.0.0/24", None, False) in rep}', neighbor=nb['idx']))
                return

    state = {'stream_done_at': None, 'sync_started': False, 'final_at': None}
    violations: list[dict] = []

    def driver() -> None:
        now = w.loop.mono
        all_read = now > 2.5 and not h.out and h.readable == 0
        if state['stream_done_at'] is None:
            if all_read and w.quiescent():
                state['stream_done_at'] = now
        elif plan.get('sync_loss') and not state['sync_started']:
            if now > state['stream_done_at'] + 2.0:
                state['sync_started'] = True
                snapshot_main()
                sync_part()
                state['final_at'] = now + 75.0
        elif plan.get('crash') and not state.get('crash_started'):
            if now > state['stream_done_at'] + 2.0:
                state['crash_started'] = True
                snapshot_main()
                crash_part()
                state['final_at'] = now + 12.0
        elif state['final_at'] is None:
            if now > state['stream_done_at'] + 2.0:
                snapshot_main()
                w.signal('SHUTDOWN')
                return
        elif now >= state['final_at']:
            if plan.get('crash'):
                check_crash()
            else:
                check_sync()
            w.signal('SHUTDOWN')
            return
        if now > 600.0:
            violations.append(viol('C14/never-quiescent', f'the command stream was not fully processed after 600 s: pending helper bytes={len(h.out)} queue={len(w.reactor.processes._command_queue)} async={len(w.reactor.asynchronous._async)}'))
            w.signal('SHUTDOWN')
            return
        w.after(0.5, driver)

    snap = {}

    def snapshot_main() -> None:
        snap['lines'] = list(h.lines)
        snap['api'] = [c for _, _, svc, c in w.api_log if svc == 'h1']
        snap['rep'] = {}
        for nb in nbrs:
            peer = w.peer_for(nb['peer_ip'])
            snap['rep'][nb['idx']] = {k: ((RW.LOCAL if v[0] == 'self' else v[0]),) + tuple(v[1:]) for k, v in RW.reported_table(peer.neighbor, False).items()} if peer is not None else None
        snap['peer'] = {nb['idx']: (RW.peer_view(speakers[nb['idx']].established().table) if speakers[nb['idx']].established() else None) for nb in nbrs}
        snap['attrs'] = {nb['idx']: (RW.attrs_mismatch(speakers[nb['idx']].established().table, variants, nb, shared_of(cmds, nb['idx'])) if speakers[nb['idx']].established() else None) for nb in nbrs}

    def check_sync() -> None:
        # after the sync-mode loss: every command of the second stream must have exactly one terminal reply, and the
        # API must still be alive (the trailing `system version` answered)
        lines2 = [ln for _, ln in h.lines[len(snap.get('lines', [])) :]]
        terms = [ln for ln in lines2 if ln in ('done', 'error')]
        if len(terms) != 5:
            violations.append(
                viol(
                    'C14/sync-command-unanswered',
                    f'sync mode + session lost before the flush: 5 commands written, terminal replies received {terms} (API lines after: {[x[:60] for x in lines2[-4:]]}); executed={len([1 for _, t, _, _ in w.api_log if t > state["stream_done_at"]])}',
                    replies=len(terms),
                )
            )

    w.at(1.0, driver)
    w.run(until=700.0)

    probes['reads'] = h.reads
    probes['eagain'] = h.eagains
    probes['partial_writes'] = h.partial_writes
    probes['line_split_across_reads'] = h.split_reads
    probes['multi_line_reads'] = h.multi_reads
    if not violations and snap:
        violations.extend(judge(plan, cmds, snap, nbrs, variants))
    if not snap and not violations:
        violations.append(viol('C14/harness-no-snapshot', 'the run ended before the command stream was processed'))
    nontrivial = (h.split_reads + h.multi_reads + h.eagains + h.partial_writes) > 0
    return result(w, violations[:1], faults=faults, probes=probes, nontrivial=nontrivial, sample={'commands': len(cmds), 'neighbors': len(nbrs), 'stream_bytes': len(stream)})


def judge(plan, cmds, snap, nbrs, variants) -> list[dict]:
    out = []
    # (1) executed == written, in order
    written = list(cmds)
    executed = snap['api']
    wn = [_norm(c['text']) for c in written]
    en = [_norm(e) for e in executed]
    if wn != en:
        i = next((j for j in range(min(len(wn), len(en))) if wn[j] != en[j]), min(len(wn), len(en)))
        out.append(
            viol(
                'C14/executed-differs-from-written',
                f'command #{i}: written {written[i]["text"][:120] if i < len(written) else None!r} executed {executed[i][:120] if i < len(executed) else None!r} (written {len(wn)}, executed {len(en)})',
                index=i, written=len(wn), executed=len(en),
            )
        )  # fmt: skip
        return out
    # (2) one terminal reply per acknowledged command, in order, with the expected outcome
    terms = [ln for _, ln in snap['lines'] if ln in ('done', 'error')]
    expected = [c for c in written if c['acked']]
    if len(terms) != len(expected):
        out.append(viol('C14/reply-count', f'{len(expected)} acknowledged commands, {len(terms)} terminal replies ({terms[:12]}...)', expected=len(expected), got=len(terms)))
        return out
    for i, (c, t) in enumerate(zip(expected, terms)):
        if c['expect'] in ('done', 'error') and c['expect'] != t:
            out.append(viol('C14/wrong-reply', f'reply #{i} to {c["text"][:140]!r}: expected {c["expect"]}, got {t}', kind=c['k'], expected=c['expect'], got=t))
            return out
    # (3) RIB of every neighbor == accepted commands applied to selected neighbors only
    intended = {nb['idx']: {} for nb in nbrs}
    for c in cmds:
        for i, op, r in c['effects']:
            key = RW.key_of(r['p'], None, False)
            if op == 'ann':
                intended[i][key] = (RW.LOCAL if r['nh'] == 'self' else r['nh'], variants[r['v']]['med'])
            else:
                intended[i].pop(key, None)
    for nb in nbrs:
        rep = snap['rep'][nb['idx']]
        if rep is None:
            continue
        if rep != intended[nb['idx']]:
            d = RW.diff_tables(rep, intended[nb['idx']], 'adj-rib-out', 'intended')
            out.append(viol('C14/rib-side-effect', f'neighbor {nb["peer_ip"]} (peer-as {nb["peer_as"]}, router-id {nb["router_id"]}): ' + '; '.join(d), neighbor=nb['idx']))
            return out
        pv = snap['peer'][nb['idx']]
        if pv is not None and pv != rep:
            d = RW.diff_tables(pv, rep, 'peer', 'adj-rib-out')
            out.append(viol('C14/peer-differs', f'neighbor {nb["peer_ip"]}: ' + '; '.join(d)))
            return out
        if snap.get('attrs', {}).get(nb['idx']):
            out.append(viol('C14/attributes-differ-from-request', f'neighbor {nb["peer_ip"]}: {snap["attrs"][nb["idx"]]}'))
            return out
    return out


def shrink_candidates(plan: dict):
    from exasim.runner import generic_candidates

    yield from generic_candidates(plan, ['cmds'])
    for key, val in (('chunks', []), ('emit', [100000]), ('pipe', None), ('sync_loss', False), ('emit_gap', 0.0), ('crash', None)):
        if plan.get(key) != val:
            p = jclone(plan)
            p[key] = val
            yield p
    if len(plan['neighbors']) > 2:
        p = jclone(plan)
        p['neighbors'] = p['neighbors'][:-1]
        yield p
    k = plan['knobs']
    if k.get('tick') != 0.002 or k.get('drift') or k.get('wall_step'):
        p = jclone(plan)
        p['knobs'].update({'tick': 0.002, 'drift': 0.0, 'wall_step': 0.0})
        yield p
