"""C10 - every protocol error is answered with the right NOTIFICATION, once."""

from __future__ import annotations

import struct

from scenarios.common import R, Speaker, config_text, jclone, knobs, make_world, result, speaker_caps, viol, wire_messages

ID = 'C10'
LEVEL = 'exploration'
LEVEL_TEXT = (
    'the (error class x session state) grid is enumerated completely once per tier (each cell under several delivery schedules) '
    'and sampled further with seeded plans (up to 6 sessions per run, varied segmentation, delays, pass cost, racing close/reset); '
    'oracle: on each connection at most one NOTIFICATION, it is the last message written, its (code, subcode) is the class table '
    'entry written from RFC 4271 s6 / RFC 6608 / RFC 7313, and a received NOTIFICATION is never answered.'
    ' A ROUTE-REFRESH with an unknown subtype must be ignored; a slowly split KEEPALIVE may precede the message under test.'
    ' Headers wrong in Marker and length at once, `local-as auto` sessions, `teardown` with a code that does not fit its octet (refused, the session goes on).'
)
LEVEL_NOTE = 'trusts: the class table below (cells where the RFCs leave a choice accept every defensible subcode), simulated TCP, reference framing of what exabgp wrote'
DESIGN_REF = 'DESIGN.md section 5, C10'
RULE = (
    'plan = list of sessions, each (state in {await-open, openconfirm, established}) x (error class) x (delivery: whole / split / '
    'delayed) x (race: none / FIN right after / RST right after); non-trivial = the injection was delivered in the intended '
    'state; distinct = schedule signatures; grid cells counted separately'
)
ASSUMPTIONS = [
    'RFC 7606 outcomes that keep the session are not judged here (C08); a session that survives an error is counted as a probe, not a violation',
    'an OPEN received in ESTABLISHED that exabgp ignores does not end the session, so C10 (conditional on the session ending) does not judge it',
    'with a racing close/reset from the peer, zero NOTIFICATIONs is acceptable (the transport may already be unusable)',
]

LOCAL, PEER = '10.0.0.1', '10.0.0.2'

# class -> (states it applies to, expected set of (code, subcode) or a predicate name)
CLASSES = {
    'hdr-marker': (('await-open', 'openconfirm', 'established'), {(1, 1)}),
    'hdr-short': (('await-open', 'openconfirm', 'established'), {(1, 2)}),
    # a stream that lost framing: wrong Marker AND a length out of range (whatever sits in the type octet, 3 included): either
    # error names what is wrong (ExaBGP checks the Marker first), and it is never the silent close of RFC 4271 6.4
    'hdr-marker-and-length': (('await-open', 'openconfirm', 'established'), {(1, 1), (1, 2)}),
    'hdr-long': (('await-open', 'openconfirm', 'established'), {(1, 2)}),
    'hdr-typelen': (('await-open', 'openconfirm', 'established'), {(1, 2)}),
    'hdr-unknown-type': (('await-open', 'openconfirm', 'established'), {(1, 3)}),
    'open-version': (('await-open',), {(2, 1)}),
    'open-peer-as': (('await-open',), {(2, 2)}),
    'open-id-zero': (('await-open',), {(2, 3)}),
    'open-hold-1': (('await-open',), {(2, 6)}),
    'open-hold-2': (('await-open',), {(2, 6)}),
    'open-param-truncated': (('await-open',), 'code2'),
    'open-param-auth': (('await-open',), 'code2'),
    'open-cap-truncated': (('await-open',), 'code2'),
    'unexpected-keepalive': (('await-open',), {(5, 1)}),
    'unexpected-update': (('await-open', 'openconfirm'), {(5, 1), (5, 2)}),
    'unexpected-refresh': (('await-open', 'openconfirm'), {(5, 1), (5, 2)}),
    'unexpected-open': (('openconfirm',), {(5, 2)}),
    'update-attrlen-overrun': (('established',), {(3, 1)}),
    'update-withdrawn-overrun': (('established',), {(3, 1)}),
    'update-nlri-prefixlen': (('established',), {(3, 10)}),
    # RFC 7313 5: a ROUTE-REFRESH with an unknown subtype is ignored, whatever kind of refresh was negotiated: no NOTIFICATION is defined for it
    'refresh-unknown-subtype': (('established',), 'ignored'),
    'hold-expiry': (('established',), {(4, 0)}),
    'openwait-expiry': (('await-open',), {(5, 1)}),
    'teardown': (('established',), 'cease'),
    # a well-formed UPDATE of exactly the negotiated maximum (4096): the last length that is not an error
    'update-max-size': (('established',), 'ignored'),
    # a subcode that does not fit the octet the NOTIFICATION has for it: the command is refused and the session goes on
    'teardown-badcode': (('established',), 'ignored'),
    'notif-ok': (('await-open', 'openconfirm', 'established'), None),
    'notif-long': (('await-open', 'openconfirm', 'established'), None),
    'notif-unknown-code': (('await-open', 'openconfirm', 'established'), None),
    'notif-short': (('await-open', 'openconfirm', 'established'), None),
    'notif-badlen': (('await-open', 'openconfirm', 'established'), None),
}
# errors RFC 4271 6.1 / 6.2 / 6.6 leave no choice about: the connection is closed with a NOTIFICATION
MUST_CLOSE = {'hdr-marker', 'hdr-marker-and-length', 'hdr-short', 'hdr-long', 'hdr-typelen', 'hdr-unknown-type', 'open-version', 'open-peer-as', 'open-id-zero', 'open-hold-1', 'open-hold-2',
              'unexpected-keepalive', 'unexpected-update', 'unexpected-refresh', 'unexpected-open'}
STATE_SUB = {'await-open': 1, 'openconfirm': 2, 'established': 3}


def counts(tier: str):
    return (1000, 75.0) if tier == 'quick' else (20000, 900.0)


def cells():
    for cls, (states, _) in CLASSES.items():
        for st in states:
            yield cls, st


def grid(tier: str):
    plans = []
    i = 0
    for cls, st in cells():
        for deliv in (('whole', 0.0), ('split', 0.15)) if tier == 'quick' else (('whole', 0.0), ('split', 0.02), ('split', 0.15), ('bytes', 0.0)):
            for race in ('none',) if tier == 'quick' else ('none', 'fin', 'rst'):
                i += 1
                plans.append(
                    {
                        'micro_seed': 1000 + i, 'knobs': {'tick': 0.002, 'drift': 0.0, 'wall_step': 0.0}, 'ibgp': False, 'hold': 6, 'openwait': 4,
                        'sessions': [{'state': st, 'cls': cls, 'deliv': deliv[0], 'gap': deliv[1], 'delay': 0.05, 'race': race, 'arg': 2}],
                    }
                )  # fmt: skip
    for cls in ('open-hold-1', 'open-hold-2', 'notif-badlen', 'hdr-short'):
        for arg in range(6):
            i += 1
            plans.append(
                {
                    'micro_seed': 3000 + i, 'knobs': {'tick': 0.002, 'drift': 0.0, 'wall_step': 0.0}, 'ibgp': False, 'hold': 0 if cls.startswith('open-') else 6, 'openwait': 4,
                    'sessions': [{'state': 'await-open', 'cls': cls, 'deliv': 'whole', 'gap': 0.0, 'delay': 0.05, 'race': 'none', 'arg': arg}],
                }
            )  # fmt: skip
    return plans


def generate(rng, tier: str, index: int) -> dict:
    all_cells = list(cells())
    sessions = []
    for _ in range(rng.randint(1, 6)):
        cls, st = rng.choice(all_cells)
        sessions.append(
            {
                'state': st, 'cls': cls, 'deliv': rng.choice(['whole', 'whole', 'split', 'bytes']), 'gap': rng.choice([0.0, 0.01, 0.09, 0.12, 0.5]),
                'delay': rng.choice([0.0, 0.01, 0.3, 1.2]), 'race': rng.choice(['none', 'none', 'none', 'fin', 'rst']), 'arg': rng.randint(0, 9),
                # the hold time the peer proposes on this connection (the negotiated one is the smaller, per session)
                'spk_hold': rng.choice([None, None, 3, 6, 9, 90]),
                'prelude_split': rng.choice([None, None, None, 1, 7, 16, 18]),
            }
        )  # fmt: skip
    return {
        'micro_seed': rng.randint(1, 1 << 48), 'knobs': knobs(rng), 'ibgp': rng.chance(0.3), 'hold': rng.choice([0, 3, 6, 9, 90]),
        'openwait': rng.choice([3, 5, 8]), 'sessions': sessions,
        # 'peer-only': the peer announces Extended Message, ExaBGP is configured not to: the limit stays 4096 (RFC 8654 4)
        'extmsg': rng.choice(['none', 'none', 'peer-only']),
        'enh_refresh': rng.chance(0.5),  # the peer announces Enhanced Route Refresh or only the plain one
        # the peer announces Graceful Restart, exabgp is not configured for it: nothing is negotiated, every close still says why
        'peer_gr': rng.fork('peer-gr').choice([None, None, 0, 120]),
        'local_auto': rng.chance(0.15),  # `local-as auto`: ExaBGP's OPEN waits for the peer's, so 'await-open' is before anything was sent
    }  # fmt: skip


def injection(spec: dict, spk: Speaker, sess, plan) -> bytes | None:
    cls = spec['cls']
    a = spec.get('arg', 0)
    ok_open = lambda **kw: R.build_open(kw.get('asn', spk.asn), kw.get('hold', spk.hold), kw.get('rid', spk.router_id), spk.caps, version=kw.get('version', 4))  # noqa: E731
    if cls == 'hdr-marker':
        m = bytearray(R.MARKER)
        m[(a * 13) % 16] ^= 1 << (a % 8)
        return R.message(R.KEEPALIVE, marker=bytes(m))
    if cls == 'update-max-size':
        attrs = R.attribute(R.A_ORIGIN, b'\x00') + R.attribute(R.A_AS_PATH, R.enc_as_path([(2, [spk.asn])] if not plan['ibgp'] else [], sess.ctx.asn4)) + R.attribute(R.A_NEXT_HOP, bytes([10, 0, 0, 2]))
        if plan['ibgp']:
            attrs += R.attribute(R.A_LOCAL_PREF, (100).to_bytes(4, 'big'))
        filler = R.attribute(201, b'z' * (4096 - 19 - 4 - len(attrs) - 4 - 4), flags=0xC0, extlen=True)
        msg = R.build_update(attrs=attrs + filler, nlri=bytes([24, 203, 0, 113]))
        assert len(msg) == 4096, len(msg)
        return msg
    if cls == 'hdr-marker-and-length':
        m = bytearray(R.MARKER)
        m[(a * 7) % 16] ^= 0x80 >> (a % 8)
        return R.message([3, 4, 3, 2, 0, 1][a % 6], b'\x00' * (a % 4), length=[0, 18, 5000, 65535, 7, 4097][(a // 2) % 6], marker=bytes(m))
    if cls == 'hdr-short':
        return R.message(R.KEEPALIVE, length=[0, 1, 18, 17, 10][a % 5])
    if cls == 'hdr-long':
        return R.message(R.UPDATE, b'\x00' * 40, length=[4097, 5000, 65535][a % 3])
    if cls == 'hdr-typelen':
        t, ln = [(4, 20), (2, 22), (1, 28), (5, 22), (4, 100)][a % 5]
        return R.message(t, b'\x00' * (ln - 19), length=ln)
    if cls == 'hdr-unknown-type':
        return R.message([0, 7, 9, 200, 255][a % 5], b'\x00' * (a % 3))
    if cls == 'open-version':
        return ok_open(version=[3, 5, 0][a % 3])
    if cls == 'open-peer-as':
        return R.build_open(spk.asn + 7, spk.hold, spk.router_id, [c for c in spk.caps if c[0] != 65] + [R.cap_asn4(spk.asn + 7)])
    if cls == 'open-id-zero':
        return ok_open(rid='0.0.0.0')
    if cls == 'open-hold-1':
        return ok_open(hold=1)
    if cls == 'open-hold-2':
        return ok_open(hold=2)
    if cls == 'open-param-truncated':
        fixed = bytes([4]) + struct.pack('!HH', spk.asn, spk.hold) + bytes(map(int, spk.router_id.split('.')))
        params = bytes([2, 10, 1, 4, 0, 1])  # parameter claims 10 bytes, 4 present
        return R.message(R.OPEN, fixed + bytes([len(params)]) + params)
    if cls == 'open-param-auth':
        fixed = bytes([4]) + struct.pack('!HH', spk.asn, spk.hold) + bytes(map(int, spk.router_id.split('.')))
        params = bytes([1, 2, 0, 0])  # deprecated authentication parameter
        return R.message(R.OPEN, fixed + bytes([len(params)]) + params)
    if cls == 'open-cap-truncated':
        fixed = bytes([4]) + struct.pack('!HH', spk.asn, spk.hold) + bytes(map(int, spk.router_id.split('.')))
        params = bytes([2, 4, 1, 4, 0, 1])  # capability MP claims 4 bytes, 2 present
        return R.message(R.OPEN, fixed + bytes([len(params)]) + params)
    if cls == 'unexpected-keepalive':
        return R.keepalive()
    if cls == 'unexpected-update':
        return R.eor() if a % 2 else R.build_update(withdrawn=bytes([24, 10, 1, 1]))
    if cls == 'unexpected-refresh':
        return R.route_refresh(1, 1)
    if cls == 'unexpected-open':
        return ok_open()
    if cls == 'refresh-unknown-subtype':
        return R.message(R.ROUTE_REFRESH, bytes([0, 1, [3, 4, 100, 255, 128][a % 5], 1]))
    if cls == 'update-attrlen-overrun':
        attrs = R.attribute(R.A_ORIGIN, b'\x00') + bytes([0x40, 2, 200, 2, 1])  # AS_PATH claims 200 bytes
        return R.build_update(attrs=attrs, nlri=bytes([24, 10, 1, 1]))
    if cls == 'update-withdrawn-overrun':
        if a % 3:
            # the withdrawn routes fill the body to the end, or leave a single byte: no room for the attribute length field
            wd = bytes([24, 10, 1, 1]) * (1 + a % 4)
            return R.message(R.UPDATE, struct.pack('!H', len(wd)) + wd + (b'' if a % 3 == 1 else b'\x00'))
        return R.message(R.UPDATE, struct.pack('!H', 300) + bytes([24, 10, 1, 1]) + b'\x00\x00')
    if cls == 'update-nlri-prefixlen':
        attrs = R.attribute(R.A_ORIGIN, b'\x00') + R.attribute(R.A_AS_PATH, R.enc_as_path([(2, [spk.asn])], True)) + R.attribute(R.A_NEXT_HOP, bytes([10, 0, 0, 2]))
        return R.build_update(attrs=attrs, nlri=bytes([33 + a % 4, 10, 1, 1, 1, 1]))
    if cls == 'notif-ok':
        return R.notification(6, [2, 4, 6][a % 3], b'going away')
    if cls == 'notif-long':
        return R.notification(6, 2, bytes([a + 60]) * 300)
    if cls == 'notif-unknown-code':
        return R.notification(99, 7, b'x')
    if cls == 'notif-short':
        return R.message(R.NOTIFICATION, bytes([6]), length=20)
    if cls == 'notif-badlen':
        ln = [18, 0, 5000, 19, 4097, 65535][a % 6]
        return R.message(R.NOTIFICATION, bytes([6, 2]) + b'x' * 8, length=ln)
    return None  # hold-expiry, openwait-expiry, teardown: not a message


def execute(plan: dict) -> dict:
    plan = jclone(plan)
    plan.setdefault('knobs', {}).setdefault('env', {})['bgp.openwait'] = plan.get('openwait', 5)
    w = make_world(plan)
    peer_as = 65001 if plan['ibgp'] else 65002
    neighbor = {
        'peer_ip': PEER, 'local_ip': LOCAL, 'local_as': 'auto' if plan.get('local_auto') else 65001, 'peer_as': peer_as, 'router_id': LOCAL, 'hold': plan['hold'],
        'families': [(1, 1)], 'caps': {'route-refresh': True, 'extended-message': False} if plan.get('extmsg') == 'peer-only' else {'route-refresh': True}, 'api': {'processes': ['h1']},
        'static': ['route 192.0.2.0/24 next-hop self'],
    }  # fmt: skip
    spk = Speaker(w, 'p1', PEER, peer_as, PEER, LOCAL, hold=plan['hold'], caps=speaker_caps({'asn': peer_as, 'extmsg': plan.get('extmsg') == 'peer-only', 'enh_refresh': bool(plan.get('enh_refresh')), 'gr': plan.get('peer_gr')}))
    w.boot(config_text([{'name': 'h1'}], [neighbor]))
    h = w.procs.helper('h1')
    queue = list(plan['sessions'])
    done: list[dict] = []  # {'spec','sess','injected_at','state_ok'}
    probes = {'injected': 0, 'not_reached_state': 0, 'raced': 0}
    faults: dict = {}

    def deliver(sess, data: bytes, spec) -> None:
        if spec['deliv'] == 'whole' or len(data) < 2:
            sess.send(data, cuts=[])
        elif spec['deliv'] == 'split':
            cut = [1, 15, 16, 18, 19, len(data) - 1][spec.get('arg', 0) % 6]
            cut = max(1, min(len(data) - 1, cut))
            sess.send(data, cuts=[cut], delays=[0.001, spec['gap']])
        else:
            n = min(len(data), 40)
            sess.send(data, cuts=list(range(1, n)), delays=[0.0005] * n)

    def inject(sess, rec) -> None:
        spec = rec['spec']
        if sess.state == 'closed':
            rec['state_ok'] = False
            return
        rec['injected_at'] = w.loop.mono
        rec['state_ok'] = True
        probes['injected'] += 1
        faults[spec['cls']] = faults.get(spec['cls'], 0) + 1
        w.rec('inject', cls=spec['cls'], state=spec['state'])
        cls = spec['cls']
        if cls == 'hold-expiry':
            spk.periodic_keepalive = False
            sess.silenced = True
            return
        if cls == 'openwait-expiry':
            return  # simply never send the OPEN
        if cls == 'teardown':
            h.emit(f'peer {PEER} teardown {2 + spec.get("arg", 0) % 8}\n'.encode())
            return
        if cls == 'teardown-badcode':
            h.emit(f'peer {PEER} teardown {[256, 99999, 1000, 65536][spec.get("arg", 0) % 4]}\n'.encode())
            return
        data = injection(spec, spk, sess, plan)
        if spec.get('prelude_split') and spec['state'] == 'established':
            # a valid KEEPALIVE whose header arrives in two pieces further apart than the 0.1 s read poll, then the message under
            # test in one piece: what was resumed for the first must not leak into the framing of the second
            k = spec['prelude_split']
            sess.send(R.keepalive(), cuts=[k], delays=[0.0, 0.25])
            w.after(0.6, lambda: deliver(sess, data, spec) if sess.state != 'closed' else None)
        else:
            deliver(sess, data, spec)
        if spec.get('prelude_split') and spec['state'] == 'established':
            return  # the close races of the message under test are not combined with the delayed delivery
        if spec['race'] == 'fin':
            probes['raced'] += 1
            sess.close(delay=0.0005)
        elif spec['race'] == 'rst':
            probes['raced'] += 1
            w.after(0.002 + spec['gap'], sess.reset)

    def on_session(sess) -> None:
        spk.auto_open = True
        spk.auto_keepalive = True
        spk.periodic_keepalive = True
        if not queue:
            return
        spec = queue.pop(0)
        spk.hold = spec['spk_hold'] if spec.get('spk_hold') is not None else plan['hold']
        rec = {'spec': spec, 'sess': sess, 'injected_at': None, 'state_ok': False, 'hold': min(plan['hold'], spk.hold) if plan['hold'] and spk.hold else 0}
        done.append(rec)
        sess.c10 = rec
        if spec['state'] == 'await-open':
            spk.auto_open = False
            spk.auto_keepalive = False
            if spec['cls'].startswith('open-'):
                # the OPEN itself is the faulty message
                w.after(spec['delay'], lambda: inject(sess, rec))
            else:
                w.after(spec['delay'], lambda: inject(sess, rec))
        elif spec['state'] == 'openconfirm':
            spk.auto_keepalive = False

    def on_open(sess) -> None:
        rec = getattr(sess, 'c10', None)
        if rec and rec['spec']['state'] == 'openconfirm' and rec['injected_at'] is None:
            w.after(rec['spec']['delay'], lambda: inject(sess, rec))

    def on_established(sess) -> None:
        rec = getattr(sess, 'c10', None)
        if rec and rec['spec']['state'] == 'established' and rec['injected_at'] is None:
            w.after(0.3 + rec['spec']['delay'], lambda: inject(sess, rec))

    spk.on_session.append(on_session)
    spk.on_open.append(on_open)
    spk.on_established.append(on_established)

    st = {'idle_since': None}

    def driver() -> None:
        cur = spk.current()
        busy = bool(queue) or (cur is not None and getattr(cur, 'c10', None) is not None and cur.state != 'closed')
        if not busy:
            if st['idle_since'] is None:
                st['idle_since'] = w.loop.mono
                spk.accept_mode = 'refuse'
            elif w.loop.mono - st['idle_since'] > 1.0:
                w.signal('SHUTDOWN')
                return
        # a session that survives its injection for 25 s is released
        if cur is not None and getattr(cur, 'c10', None) and cur.c10['injected_at'] is not None and w.loop.mono - cur.c10['injected_at'] > 25.0 and cur.state != 'closed':
            cur.c10['survived'] = True
            cur.reset()
        w.after(0.5, driver)

    w.at(0.5, driver)
    w.run(until=40.0 * (len(plan['sessions']) + 1) + 60.0)

    violations = []
    for rec in done:
        v = judge(w, rec, probes)
        if v:
            violations.append(v)
            break
    return result(
        w, violations, faults=faults, probes=probes, nontrivial=probes['injected'] > 0,
        sample={'sessions': [(r['spec']['state'], r['spec']['cls'], r['spec']['race']) for r in done]},
    )  # fmt: skip


def judge(w, rec, probes):
    spec = rec['spec']
    sess = rec['sess']
    cls = spec['cls']
    state = spec['state']
    if rec['injected_at'] is None or not rec['state_ok']:
        probes['not_reached_state'] += 1
        return None
    msgs = [(t, mt, b) for c, t, mt, b in wire_messages(w, sess.conn.cid)]
    notifs = [(i, (b[0], b[1]) if len(b) >= 2 else (-1, -1)) for i, (t, mt, b) in enumerate(msgs) if mt == R.NOTIFICATION]
    where = f'{cls}@{state} race={spec["race"]} deliv={spec["deliv"]}'
    if len(notifs) > 1:
        return viol('C10/two-notifications', f'{where}: exabgp wrote {len(notifs)} NOTIFICATIONs {[n for _, n in notifs]} on one connection', cls=cls, state=state)
    if notifs and notifs[0][0] != len(msgs) - 1:
        after = [(R.TYPE_NAMES.get(mt, mt)) for _, mt, _ in msgs[notifs[0][0] + 1 :]]
        return viol('C10/message-after-notification', f'{where}: after NOTIFICATION {notifs[0][1]} exabgp still wrote {after}', cls=cls, state=state)
    expected = CLASSES[cls][1]
    got = notifs[0][1] if notifs else None
    if cls.startswith('notif-'):
        if got is not None:
            return viol('C10/notification-answered', f'{where}: the received NOTIFICATION was answered with NOTIFICATION {got}', cls=cls, state=state, got=f'{got[0]}/{got[1]}')
        return None
    if rec.get('survived'):
        probes[f'survived:{cls}@{state}'] = probes.get(f'survived:{cls}@{state}', 0) + 1
        if cls in MUST_CLOSE or (cls == 'hold-expiry' and 0 < rec.get('hold', 0) <= 9):
            return viol('C10/error-not-answered', f'{where}: RFC 4271 requires the session to be closed with NOTIFICATION {expected}; 25 s later it was still open and nothing had been sent', cls=cls, state=state)
        return None
    if got is None:
        if spec['race'] != 'none':
            return None
        if sess.closed_by == 'exabgp':
            return viol('C10/closed-without-notification', f'{where}: exabgp closed the session without any NOTIFICATION (expected {expected})', cls=cls, state=state)
        return None
    ok = False
    if expected == 'ignored':
        return viol('C10/wrong-notification', f'{where}: a message the RFCs ask to ignore was answered with NOTIFICATION {got}', cls=cls, state=state, got=f'{got[0]}/{got[1]}')
    if expected == 'code2':
        ok = got[0] == 2
    elif expected == 'cease':
        ok = got == (6, 2 + spec.get('arg', 0) % 8)
    else:
        ok = got in expected
        if cls in ('unexpected-update', 'unexpected-refresh'):
            ok = got == (5, STATE_SUB[state])
    if not ok:
        return viol('C10/wrong-notification', f'{where}: expected NOTIFICATION {expected if not isinstance(expected, str) else expected}, exabgp sent {got}', cls=cls, state=state, got=f'{got[0]}/{got[1]}')
    return None


def shrink_candidates(plan: dict):
    from exasim.runner import generic_candidates

    yield from generic_candidates(plan, ['sessions'])
    for i, s in enumerate(plan['sessions']):
        for key, val in (('race', 'none'), ('deliv', 'whole'), ('delay', 0.0), ('gap', 0.0)):
            if s.get(key) != val:
                p = jclone(plan)
                p['sessions'][i][key] = val
                yield p
    k = plan['knobs']
    if k.get('tick') != 0.002 or k.get('drift') or k.get('wall_step'):
        p = jclone(plan)
        p['knobs'].update({'tick': 0.002, 'drift': 0.0, 'wall_step': 0.0})
        yield p
