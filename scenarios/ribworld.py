"""Shared world for the Adj-RIB-Out properties (C04, C11, C17, parts of C14): neighbors with a
helper process, scripted RIB operations through the real API text, remote speakers holding the
reference-decoded peer table, and extraction of the Adj-RIB-Out ExaBGP reports."""

from __future__ import annotations

import struct

import ipaddress
import re

from scenarios.common import R, Speaker, config_text, make_world, speaker_caps

LOCAL = '10.0.0.1'
PEER_IPS = ['10.0.0.2', '10.0.0.3', '10.0.0.4']
PEER_AS = [65002, 65001, 65003]  # second neighbor is iBGP
API_PREFIXES = ['198.51.100.0/24', '198.51.101.0/24', '203.0.113.0/25', '10.20.0.0/16', '198.51.100.0/25', '172.16.1.0/24']
API_PREFIXES6 = ['2001:db8:1::/48', '2001:db8:2::/64']
CONF_PREFIXES = ['192.0.2.0/24', '192.0.3.0/24', '192.0.4.0/24', '192.0.5.0/24']
NEXTHOPS = ['10.0.0.9', 'self', '10.0.0.77']


def variant_text(v: dict) -> str:
    out = f'med {v["med"]}'
    if v.get('lp') is not None:
        out += f' local-preference {v["lp"]}'
    if v.get('comm'):
        out += ' community [' + ' '.join(f'{a}:{b}' for a, b in v['comm']) + ']'
    if v.get('aspath'):
        out += ' as-path [' + ' '.join(str(a) for a in v['aspath']) + ']'
    if v.get('origin'):
        out += f' origin {v["origin"]}'
    if v.get('ext'):
        out += ' extended-community [ ' + ' '.join(f'target:65000:{n}' for n in v['ext']) + ' ]'
    return out


def ext_hex(asn: int, n: int) -> str:
    return (bytes([0, 2]) + struct.pack('!HL', asn, n)).hex()


def route_text(r: dict, variants: list[dict]) -> str:
    t = f'route {r["p"]} next-hop {r["nh"]}'
    if r.get('pid') is not None:
        t += f' path-information {r["pid"]}'
    if r.get('lab') is not None:
        t += f' label [ {r["lab"]} ]'
    if r.get('rd'):
        t += f' rd {r["rd"]}'
    if r.get('v') is not None:
        t += ' ' + variant_text(variants[r['v']])
    return t


def gen_variants(rng, n: int) -> list[dict]:
    out = []
    for i in range(n):
        v = {'med': 100 + i}
        if rng.chance(0.4):
            v['lp'] = rng.choice([50, 100, 200])
        if rng.chance(0.5):
            v['comm'] = [[rng.choice([65000, 65010]), rng.randint(1, 5)] for _ in range(rng.randint(1, 3))]
        if rng.chance(0.4):
            v['aspath'] = [rng.choice([64512, 64513, 65100]) for _ in range(rng.randint(1, 3))]
        if rng.chance(0.3):
            v['origin'] = rng.choice(['igp', 'egp', 'incomplete'])
        out.append(v)
    f = rng.fork('variant-ext')  # (a side stream: the plans generated so far keep their draws)
    for i, v in enumerate(out):
        if f.chance(0.4):
            v['ext'] = sorted({10 * (i + 1) + f.randint(0, 3) for _ in range(f.randint(1, 2))})  # numbers no other variant uses
    return out


def expected_attrs(v: dict, ebgp: bool, local_as: int, shared_ext=()) -> dict:
    """canonical attribute values a peer must decode for variant v (RFC defaults for the rest)"""
    a = {'origin': {'igp': 0, 'egp': 1, 'incomplete': 2}[v.get('origin') or 'igp'], 'med': v['med']}
    path = list(v.get('aspath') or [])
    if ebgp:
        if not path:
            path = [local_as]  # an AS_PATH the operator wrote goes out as written (exabgp injects, it does not prepend)
        # no LOCAL_PREF on eBGP
    else:
        a['local_pref'] = v['lp'] if v.get('lp') is not None else 100
    a['as_path'] = [(2, tuple(path))] if path else []
    if v.get('comm'):
        a['communities'] = sorted((x, y) for x, y in v['comm'])
    ext = sorted({ext_hex(65000, n) for n in v.get('ext') or []} | set(shared_ext))
    if ext:
        a['ext_communities'] = ext
    return a


def gen_neighbors(rng, n: int, addpath: bool, ipv6: bool) -> list[dict]:
    out = []
    for i in range(n):
        out.append(
            {
                'idx': i, 'peer_ip': PEER_IPS[i], 'peer_as': PEER_AS[i], 'local_as': 65001,
                'group_updates': rng.chance(0.6), 'rate_limit': rng.choice([0, 0, 0, 40]), 'addpath': addpath, 'ipv6': ipv6,
                'hold': rng.choice([30, 90, 180]),
            }
        )  # fmt: skip
    return out


def families_of(nb: dict) -> list[tuple[int, int]]:
    return [(1, 1)] + ([(2, 1)] if nb.get('ipv6') else []) + ([(1, 4), (1, 128)] if nb.get('mpls') else [])


def neighbor_conf(nb: dict, static: list[str], api_options=None, receive=None, extra=None) -> dict:
    fams = families_of(nb)
    n = {
        'peer_ip': nb['peer_ip'], 'local_ip': LOCAL, 'local_as': nb['local_as'], 'peer_as': nb['peer_as'], 'router_id': LOCAL,
        'hold': nb.get('hold', 90), 'families': fams, 'adj-rib-out': nb.get('adj_rib_out', True), 'group-updates': nb.get('group_updates', True),
        'api': {'processes': ['h1'], 'options': api_options or [], 'receive': receive or []},
        'static': static,
        'caps': {'route-refresh': True, 'graceful-restart': nb['gr']} if nb.get('gr') else {'route-refresh': True},
    }  # fmt: skip
    if nb.get('rate_limit'):
        n['rate-limit'] = nb['rate_limit']
    if nb.get('addpath'):
        n['caps']['add-path'] = 'send/receive'
        n['addpath_families'] = [(1, 1)]
    if extra:
        n.update(extra)
    return n


def make_speaker(w, nb: dict) -> Speaker:
    fams = families_of(nb)
    spec = {'asn': nb['peer_as'], 'families': fams, 'enh_refresh': nb.get('enh_refresh', False)}
    if nb.get('addpath'):
        spec['addpath'] = [(1, 1, 3)]
    if nb.get('gr'):
        spec['gr'] = nb['gr']
    return Speaker(w, f'p{nb["idx"]}', nb['peer_ip'], nb['peer_as'], nb['peer_ip'], LOCAL, hold=nb.get('hold', 90), caps=speaker_caps(spec))


def key_of(prefix: str, pid, addpath: bool, lab=None, rd=None) -> tuple:
    """the route's identity as RFC 4271/7911/8277/4364 define it: family, path-id (ADD-PATH only), prefix, RD - not the label"""
    net = ipaddress.ip_network(prefix, strict=False)
    afi = 1 if net.version == 4 else 2
    safi = 128 if rd else (4 if lab is not None else 1)
    ap = addpath and afi == 1 and safi == 1
    return (afi, safi, (int(pid) if pid is not None else 0) if ap else None, str(net), rd or None)


def rkey(r: dict, addpath: bool) -> tuple:
    return key_of(r['p'], r.get('pid'), addpath, r.get('lab'), r.get('rd'))


_RE_PID = re.compile(r' path-information (\S+)')
_RE_NH = re.compile(r' next-hop (\S+)')
_RE_MED = re.compile(r' med (\d+)')
_RE_LABEL = re.compile(r' label (\d+) ')
_RE_RD = re.compile(r' rd (\S+)')


def reported_table(neighbor, addpath: bool) -> dict:
    """The Adj-RIB-Out exabgp reports: OutgoingRIB.cached_routes(), read through Route.extensive()
    (the text `show adj-rib out extensive` prints): key -> (next hop, med)"""
    out = {}
    for route in neighbor.rib.outgoing.cached_routes():
        text = route.extensive()
        prefix = text.split(' ', 1)[0]
        m = _RE_PID.search(text)
        pid = None
        if m:
            pid = int(ipaddress.IPv4Address(m.group(1)))
        nh = _RE_NH.search(text)
        med = _RE_MED.search(text)
        lab = _RE_LABEL.search(text)
        rd = _RE_RD.search(text)
        k = key_of(prefix, pid, addpath, int(lab.group(1)) if lab else None, rd.group(1) if rd else None)
        out[k] = (nh.group(1) if nh else None, int(med.group(1)) if med else None) + ((int(lab.group(1)),) if lab else ())
    return out


def peer_view(table: R.PeerTable) -> dict:
    return {k: ((v['next_hop'][0] if v['next_hop'] else None), v['attrs'].get('med')) + ((v['labels'][0],) if v.get('labels') else ()) for k, v in table.routes.items()}


def attrs_mismatch(table: R.PeerTable, variants: list[dict], nb: dict, shared: dict | None = None) -> str | None:
    """every route the peer holds carries exactly the attribute values of the operator's variant its MED names (MEDs are
    unique per variant), with the RFC defaults of that session for the rest - nothing of another variant mixed in"""
    ebgp = nb['peer_as'] != nb.get('local_as', 65001)
    by_med = {v['med']: v for v in variants}
    for k, r in sorted(table.routes.items(), key=str):
        a = r['attrs']
        v = by_med.get(a.get('med'))
        if v is None:
            return f'{fmt_key(k)}: MED {a.get("med")} names no variant the operator ever used'
        want = expected_attrs(v, ebgp, nb.get('local_as', 65001), (shared or {}).get(k, ()))  # shared: extended communities a `group attributes` line added
        have = dict(a)
        have.setdefault('as_path', [])
        if have != want:
            bad = sorted(x for x in set(have) | set(want) if have.get(x) != want.get(x))
            return f'{fmt_key(k)} (variant med {v["med"]}): ' + '; '.join(f'{x}: peer holds {have.get(x)} operator asked {want.get(x)}' for x in bad[:3])
    return None


def fmt_key(k) -> str:
    return f'{k[3]}' + (f'#{k[2]}' if k[2] is not None else '') + ({1: '', 2: ' multicast', 4: ' labelled', 128: f' vpn rd {k[4]}'}.get(k[1], f' safi {k[1]}'))


def diff_tables(a: dict, b: dict, na: str, nb: str, limit: int = 4) -> list[str]:
    out = []
    for k in sorted(set(a) | set(b), key=str):
        if a.get(k) != b.get(k):
            out.append(f'{fmt_key(k)}: {na}={a.get(k)} {nb}={b.get(k)}')
            if len(out) >= limit:
                break
    return out
