"""C16 - FlowSpec rules mean on the wire what they say in text."""

from __future__ import annotations

import json
import struct

from refbgp import flow as FL
from scenarios.common import R, Speaker, config_text, jclone, knobs, make_world, result, speaker_caps, viol

ID = 'C16'
LEVEL = 'exploration'
LEVEL_TEXT = (
    'refinement of the running speaker against an independent RFC 8955/8956 codec, in both directions on one live session (ipv4/ipv6 flow and '
    'flow-vpn negotiated): (A) rules generated from structured values - every component type, operator lists with AND chains, values at '
    'the 1/2/4-byte boundaries, IPv6 prefixes with offsets, lists long enough to push the NLRI across 240 bytes, with and without RD, every '
    'traffic action - are rendered to text in a shuffled order, entered through the API and the configuration file, and the UPDATE bytes that '
    'arrive at the scripted peer are decoded by the reference (ascending type order, end-of-list on exactly the last operator, AND bits as '
    'written, shortest value width, one-byte length below 240 and 0xFnnn from 240, RD first) and compared with the rule and the RFC action '
    'communities; (B) the peer sends reference-encoded NLRI (any value width, lengths around 240) and ExaBGP\'s JSON event must be the rule '
    'the reference extracts, while NLRI with an undefined component type, components out of order, a truncated value or a length running past '
    'the attribute must never be reported as a rule at all.'
)
LEVEL_NOTE = 'trusts: the reference FlowSpec codec (refbgp/flow.py), the text rendering of rules in this file, the display names of TCP flags / fragment bits / tcp, udp, icmp used to read the JSON back'
DESIGN_REF = 'DESIGN.md section 5, C16'
RULE = (
    'plan = session (4 flow families) x 1-10 text rules (API or configuration) x 1-10 wire rules (well-formed or one of 6 malformations); '
    'non-trivial = at least one rule was judged in each direction; distinct = digests of (text, bytes); per-component, per-action and '
    'per-malformation counts in the probes'
)
ASSUMPTIONS = [
    'rate-limit values are whole numbers exactly representable as IEEE single floats',
    'redirect to an IP next hop / copy / interface-set actions are accepted but their encoding is not judged (drafts, no RFC 8955 definition)',
    'the AND bit of the first operator of a component is not generated as set (RFC 8955 4.2.1.1: must be unset, ignored on receipt)',
    'components out of order are not sent to ExaBGP: RFC 8955 4.2 calls them malformed but the property only names undefined components and truncated values',
    'ICMP type and code values sent to ExaBGP are 64-199 (no display names to read back)',
]

LOCAL = '10.0.0.1'
KW4 = {1: 'destination', 2: 'source', 3: 'protocol', 4: 'port', 5: 'destination-port', 6: 'source-port', 7: 'icmp-type', 8: 'icmp-code', 9: 'tcp-flags', 10: 'packet-length', 11: 'dscp', 12: 'fragment'}
KW6 = {**KW4, 3: 'next-header', 11: 'traffic-class', 13: 'flow-label'}
JSON4 = {**KW4, 1: 'destination-ipv4', 2: 'source-ipv4'}
JSON6 = {**KW6, 1: 'destination-ipv6', 2: 'source-ipv6'}
MAXV = {3: 255, 4: 65535, 5: 65535, 6: 65535, 7: 255, 8: 255, 9: 0x1FF, 10: 65535, 11: 63, 12: 15, 13: 0xFFFFF}
TCP_BITS = {'fin': 1, 'syn': 2, 'rst': 4, 'push': 8, 'ack': 16, 'urg': 32, 'ece': 64, 'cwr': 128, 'ns': 256}
FRAG_BITS = {'dont-fragment': 1, 'is-fragment': 2, 'first-fragment': 4, 'last-fragment': 8}
PROTO_NAMES = {'icmp': 1, 'igmp': 2, 'tcp': 6, 'udp': 17, 'gre': 47, 'esp': 50, 'ah': 51, 'ospf': 89, 'pim': 103, 'sctp': 132, 'ipv6-icmp': 58, 'icmpv6': 58}
MALFORMATIONS = ['undefined-type', 'truncated-value', 'length-overrun', 'no-end-of-list', 'type-13-in-ipv4']


def counts(tier: str):
    return (1200, 75.0) if tier == 'quick' else (25000, 900.0)


# --------------------------------------------------------------------------- rule generation


def gen_ops(rng, ctype: int, nmax: int = 4, no_names: bool = False) -> list:
    n = rng.choice([1, 1, 1, 2, 3, nmax])
    mx = MAXV[ctype]
    items = []
    for i in range(n):
        and_ = i > 0 and rng.chance(0.4)
        v = rng.choice([0, 1, 255, 256, 65535, 65536, mx, rng.randint(0, mx)])
        v = min(v, mx)
        if ctype in (7, 8) and no_names:
            v = 64 + v % 136  # 64..199: no display names
        if ctype == 3 and no_names and v < 200 and v not in (1, 6, 17):
            v = 200 + v % 50
        if ctype in FL.BITMASK:
            v = max(1, v)
            items.append([and_, rng.chance(0.3), rng.chance(0.4), v, None])
        else:
            if ctype in (3, 7, 8) and v in (1, 2, 6, 17, 47, 50, 51, 58, 89, 103, 132) and ctype != 3:
                pass
            lt, gt, eq = rng.choice([(0, 0, 1), (0, 0, 1), (0, 1, 0), (0, 1, 1), (1, 0, 0), (1, 0, 1), (1, 1, 0), (0, 0, 0), (1, 1, 1)])
            items.append([and_, bool(lt), bool(gt), bool(eq), v, None])
    return items


def gen_rule(rng, afi: int, vpn: bool, long_ok: bool = True, no_names: bool = False) -> dict:
    types = [t for t in range(1, (13 if afi == 1 else 14))]
    chosen = sorted(rng.sample(types, rng.choice([1, 1, 2, 3, 4, 6, len(types)])))
    if afi == 2 and not (1 in chosen or 2 in chosen):
        # the text grammar tells an IPv6 rule by its prefixes: a rule without any is IPv4
        chosen = sorted(set(chosen) | {rng.choice([1, 2])})
    comps = []
    for t in chosen:
        if t in (1, 2):
            if afi == 1:
                length = rng.choice([0, 8, 9, 24, 31, 32])
                v = rng.randint(0, (1 << 32) - 1) & (((1 << 32) - 1) ^ ((1 << (32 - length)) - 1)) if length else 0
                comps.append([t, [str(__import__('ipaddress').IPv4Address(v)), length, 0]])
            else:
                length = rng.choice([0, 16, 48, 64, 65, 127, 128])
                # an offset is the recorded finding C16/ipv6-prefix-offset-encoding: kept rare so that it does not mask the rest
                offset = rng.choice([8, 16, 63, length]) if (length and rng.chance(0.12)) else 0
                offset = min(offset, length)
                v = rng.randint(0, (1 << 128) - 1)
                # only bits offset..length are carried
                mask = (((1 << 128) - 1) >> offset) & (((1 << 128) - 1) ^ ((1 << (128 - length)) - 1)) if length else 0
                comps.append([t, [str(__import__('ipaddress').IPv6Address(v & mask)), length, offset]])
        else:
            nmax = rng.choice([4, 4, 8, 60, 130]) if long_ok else 4
            comps.append([t, gen_ops(rng, t, nmax, no_names)])
    rule: dict = {'afi': afi, 'comps': comps}
    if vpn:
        kind = rng.choice([0, 1, 2])
        rule['rd'] = [kind, {0: rng.choice([1, 65000, 65535]), 1: '1.2.3.4', 2: rng.choice([65536, 4200000000])}[kind], rng.choice([0, 1, 65535])]
    return rule


def gen_actions(rng) -> list:
    acts = []
    for _ in range(rng.choice([1, 1, 1, 2])):
        a = rng.choice(['discard', 'rate-bytes', 'rate-packets', 'redirect2', 'redirect4', 'mark', 'action', 'accept'])
        if any(x[0] == a for x in acts):
            continue
        if a == 'rate-bytes':
            acts.append([a, rng.choice([0, 9600, 65536, 1000000, 16777216])])
        elif a == 'rate-packets':
            acts.append([a, rng.choice([0, 1, 1000, 65536])])
        elif a == 'redirect2':
            acts.append([a, rng.choice([0, 1, 65000, 65535]), rng.choice([0, 1, 65536, 4294967295])])
        elif a == 'redirect4':
            acts.append([a, rng.choice([65536, 4200000000, 4294967295]), rng.choice([0, 1, 65535])])
        elif a == 'mark':
            acts.append([a, rng.choice([0, 1, 10, 63])])
        elif a == 'action':
            acts.append([a, rng.choice(['sample', 'terminal', 'sample-terminal'])])
        else:
            acts.append([a])
    if any(x[0] in ('discard', 'rate-bytes') for x in acts) and sum(1 for x in acts if x[0] in ('discard', 'rate-bytes')) > 1:
        acts = [x for x in acts if x[0] != 'discard']
    return acts


def generate(rng, tier: str, index: int) -> dict:
    text_rules = []
    for _ in range(rng.randint(1, 10)):
        afi = rng.choice([1, 1, 2])
        vpn = rng.chance(0.25)
        text_rules.append({'rule': gen_rule(rng, afi, vpn), 'actions': gen_actions(rng), 'shuffle': rng.randint(1, 1 << 30), 'via': rng.choice(['api', 'api', 'api-line', 'config'])})
    if rng.chance(0.3):
        # a rule whose encoded length lands exactly on a boundary of the length prefix
        target = rng.choice([239, 240, 240, 241, 255, 256, 257])
        vpn = rng.chance(0.3)
        base = 6 + (8 if vpn else 0)  # source a.b.c.d/32
        rest = target - base - 1
        m = {0: 0, 1: 2, 2: 1}[rest % 3]
        n = (rest - 2 * m) // 3
        items = [[False, False, False, True, 1000 + i, None] for i in range(n)] + [[False, False, False, True, 10 + i, None] for i in range(m)]
        rule = {'afi': 1, 'comps': [[2, ['10.0.0.1', 32, 0]], [rng.choice([4, 5, 6, 10]), items]]}
        if vpn:
            rule['rd'] = [0, 65000, 1]
        text_rules.append({'rule': rule, 'actions': [['discard']], 'shuffle': 1, 'via': rng.choice(['api', 'config']), 'exact': target})
    wire_rules = []
    for _ in range(rng.randint(1, 10)):
        afi = rng.choice([1, 1, 2])
        vpn = rng.chance(0.25)
        wire_rules.append({'rule': gen_rule(rng, afi, vpn, no_names=True), 'widths': rng.randint(1, 1 << 30) if rng.chance(0.4) else 0, 'malform': rng.choice(MALFORMATIONS) if rng.chance(0.35) else None, 'seed': rng.randint(1, 1 << 30)})
    ms = rng.chance(0.1)
    if ms:
        # multi-session: the rules all come from the configuration file (exabgp copies the neighbor, routes included, once per family)
        text_rules = [dict(tr, via='config') for tr in text_rules]
        wire_rules = []
    return {'micro_seed': rng.randint(1, 1 << 48), 'knobs': knobs(rng), 'asn4': rng.chance(0.7), 'ibgp': rng.chance(0.5), 'text_rules': text_rules, 'wire_rules': wire_rules, 'gap': rng.choice([0.02, 0.1]), 'multisession': ms}


# --------------------------------------------------------------------------- text rendering


def ops_text(ctype: int, items: list) -> str:
    toks = []
    cur = ''
    for i, it in enumerate(items):
        if ctype in FL.BITMASK:
            and_, not_, match, v, _ = it
            op = ('!' if not_ else '') + ('=' if match else '')
            term = op + (hex(v) if v > 9 else str(v))
        else:
            and_, lt, gt, eq, v, _ = it
            op = {(0, 0, 1): '=', (0, 1, 0): '>', (0, 1, 1): '>=', (1, 0, 0): '<', (1, 0, 1): '<=', (1, 1, 0): '!=', (0, 0, 0): 'false', (1, 1, 1): 'true'}[(int(lt), int(gt), int(eq))]
            term = op + str(v)
        if i > 0 and and_:
            cur += '&' + term
        else:
            if cur:
                toks.append(cur)
            cur = term
    toks.append(cur)
    return '[ ' + ' '.join(toks) + ' ]'


def rule_text(tr: dict) -> str:
    from exasim.choice import Rng

    rule = tr['rule']
    kw = KW4 if rule['afi'] == 1 else KW6
    stmts = []
    for t, payload in rule['comps']:
        if t in (1, 2):
            addr, length, offset = payload
            stmts.append(f'{kw[t]} {addr}/{length}' + (f'/{offset}' if rule['afi'] == 2 else '') + ';')
        else:
            stmts.append(f'{kw[t]} {ops_text(t, payload)};')
    Rng(tr['shuffle']).shuffle(stmts)
    acts = []
    for a in tr['actions']:
        if a[0] == 'discard':
            acts.append('discard;')
        elif a[0] == 'accept':
            acts.append('accept;')
        elif a[0] == 'rate-bytes':
            acts.append(f'rate-limit {a[1]};')
        elif a[0] == 'rate-packets':
            acts.append(f'rate-limit {a[1]} packets;')
        elif a[0] in ('redirect2', 'redirect4'):
            acts.append(f'redirect {a[1]}:{a[2]};')
        elif a[0] == 'mark':
            acts.append(f'mark {a[1]};')
        elif a[0] == 'action':
            acts.append(f'action {a[1]};')
    rd = ''
    if rule.get('rd'):
        rd = f'rd {R.rd_str(R.enc_rd(*rule["rd"]))}; '
    return '{ ' + rd + 'match { ' + ' '.join(stmts) + ' } then { ' + ' '.join(acts) + ' } }'


def rule_text_line(tr: dict) -> str:
    """the one-line API spelling: `route <match keywords> [rd x] <action keywords>`, no braces"""
    t = rule_text(tr)
    inner = t[1:-1].strip()
    rd = ''
    if inner.startswith('rd '):
        rd, inner = inner.split(';', 1)
        rd = rd.strip() + ' '
    m = inner[inner.index('match {') + 7 : inner.index('} then {')]
    a = inner[inner.index('} then {') + 8 : inner.rindex('}')]
    return (m.replace(';', ' ') + ' ' + rd + a.replace(';', ' ')).strip()


def expected_ecs(actions: list) -> set:
    out = set()
    for a in actions:
        if a[0] == 'discard':
            out.add(FL.ec_rate_bytes(0, 0.0).hex())
        elif a[0] == 'rate-bytes':
            out.add(FL.ec_rate_bytes(0, float(a[1])).hex())
        elif a[0] == 'rate-packets':
            out.add(FL.ec_rate_packets(0, float(a[1])).hex())
        elif a[0] == 'redirect2':
            out.add(FL.ec_redirect_as2(a[1], a[2]).hex())
        elif a[0] == 'redirect4':
            out.add(FL.ec_redirect_as4(a[1], a[2]).hex())
        elif a[0] == 'mark':
            out.add(FL.ec_mark(a[1]).hex())
        elif a[0] == 'action':
            out.add(FL.ec_action('sample' in a[1], 'terminal' in a[1]).hex())
    return out


def as_ref_rule(rule: dict, widths_seed: int = 0) -> dict:
    from exasim.choice import Rng

    rng = Rng(widths_seed) if widths_seed else None
    comps = []
    for t, payload in rule['comps']:
        if t in (1, 2):
            comps.append((t, tuple(payload)))
        else:
            items = []
            for it in payload:
                it = list(it)
                v = it[-2]
                w = FL.shortest_width(v)
                if rng is not None and rng.chance(0.5):
                    w = rng.choice([x for x in (1, 2, 4, 8) if x >= w])
                it[-1] = w
                items.append(tuple(it))
            comps.append((t, items))
    return {'rd': R.enc_rd(*rule['rd']) if rule.get('rd') else None, 'comps': comps}


def wire_bytes(wr: dict) -> tuple[bytes, bool]:
    """(NLRI bytes, well-formed?) for direction B"""
    from exasim.choice import Rng

    rule = wr['rule']
    ref = as_ref_rule(rule, wr['widths'])
    afi = rule['afi']
    m = wr['malform']
    rng = Rng(wr['seed'])
    if m is None:
        return FL.enc_rule(afi, ref['comps'], ref['rd']), True
    if m == 'undefined-type':
        bad = rng.choice([0, 14, 15, 64, 255])
        return FL.enc_rule(afi, ref['comps'] + [(bad if bad else 0, [(False, False, False, True, 1, 1)])], ref['rd'], sort=False), False
    if m == 'type-13-in-ipv4':
        if afi != 1:
            return FL.enc_rule(afi, ref['comps'], ref['rd']), True
        comps = [c for c in ref['comps']] + [(13, [(False, False, False, True, 5, 1)])]
        return FL.enc_rule(afi, comps, ref['rd'], sort=False), False
    if m == 'out-of-order':
        comps = list(ref['comps'])
        if len(comps) < 2:
            comps = comps + [(comps[0][0], comps[0][1])]  # repeated type
        else:
            comps[0], comps[-1] = comps[-1], comps[0]
        return FL.enc_rule(afi, comps, ref['rd'], sort=False), False
    good = FL.enc_rule(afi, ref['comps'], ref['rd'])
    hdr = 2 if good[0] >= 0xF0 else 1
    body = good[hdr:]
    if m == 'truncated-value':
        # drop the last byte(s) and fix the length: the last operator's value (or prefix) is short
        if not ref['comps'] or len(body) < 2:
            return good, True
        cut = rng.choice([1, 1, 2]) if ref['comps'][-1][0] not in (1, 2) else 1
        last = ref['comps'][-1]
        if last[0] in (1, 2) and last[1][1] - (last[1][2] if afi == 2 else 0) < 8:
            return good, True  # a prefix without value bytes cannot be truncated
        body2 = body[: len(body) - cut]
        n = len(body2)
        return (bytes([n]) if n < 240 else bytes([0xF0 | (n >> 8), n & 0xFF])) + body2, False
    if m == 'length-overrun':
        n = len(body) + rng.choice([1, 2, 10])
        return (bytes([n]) if n < 240 else bytes([0xF0 | (n >> 8), n & 0xFF])) + body, False
    # no-end-of-list: clear the end-of-list bit of the last operator of the last operator component
    ops = [i for i, c in enumerate(ref['comps']) if c[0] not in (1, 2)]
    if not ops or ops[-1] != len(ref['comps']) - 1:
        return good, True
    last_items = ref['comps'][-1][1]
    w = last_items[-1][-1]
    pos = len(body) - w - 1
    body2 = body[:pos] + bytes([body[pos] & 0x7F]) + body[pos + 1 :]
    return good[:hdr] + body2, False


# --------------------------------------------------------------------------- reading exabgp's JSON back


def parse_term(ctype: int, term: str, afi: int):
    if ctype in FL.BITMASK:
        not_ = match = False
        if term.startswith('!='):
            not_, match, term = True, True, term[2:]
        elif term.startswith('!'):
            not_, term = True, term[1:]
        elif term.startswith('='):
            match, term = True, term[1:]
        table = TCP_BITS if ctype == 9 else FRAG_BITS
        v = 0
        for name in term.split('+'):
            if name in table:
                v += table[name]
            elif name.startswith('0x'):
                v += int(name, 16)
            elif name.isdigit():
                v += int(name)
            else:
                raise ValueError(f'unknown bit name {name!r}')
        return (not_, match, v)
    for op, bits in (('>=', (0, 1, 1)), ('<=', (1, 0, 1)), ('!=', (1, 1, 0)), ('=', (0, 0, 1)), ('>', (0, 1, 0)), ('<', (1, 0, 0)), ('true', (1, 1, 1)), ('false', (0, 0, 0))):
        if term.startswith(op):
            val = term[len(op) :]
            break
    else:
        raise ValueError(f'unknown operator in {term!r}')
    if val == '' and bits in ((1, 1, 1), (0, 0, 0)):
        v = None
    elif val.isdigit():
        v = int(val)
    elif val in PROTO_NAMES and ctype == 3:
        v = PROTO_NAMES[val]
    else:
        raise ValueError(f'unknown value name {val!r} for component {ctype}')
    if bits in ((1, 1, 1), (0, 0, 0)):
        v = None
    return (bool(bits[0]), bool(bits[1]), bool(bits[2]), v)


def json_rule(entry: dict, afi: int) -> tuple:
    names = JSON4 if afi == 1 else JSON6
    comps = []
    for t in sorted(names):
        key = names[t]
        if key not in entry:
            continue
        vals = entry[key]
        if t in (1, 2):
            if len(vals) != 1:
                raise ValueError('several prefixes in one component')
            parts = vals[0].split('/')
            addr, length = parts[0], int(parts[1])
            offset = int(parts[2]) if len(parts) > 2 else 0
            comps.append((t, (str(__import__('ipaddress').ip_address(addr)), length, offset)))
        else:
            items = []
            for chain in vals:
                for j, term in enumerate(chain.split('&')):
                    items.append((j > 0,) + parse_term(t, term, afi))
            comps.append((t, tuple(items)))
    known = set(names.values()) | {'rd', 'string', 'next-hop'}
    extra = [k for k in entry if k not in known]
    if extra:
        raise ValueError(f'unexpected keys {extra}')
    rd = entry.get('rd')
    return (rd, tuple(comps))


def _blank_constants(comps: tuple) -> tuple:
    """the operand of an always-true / always-false operator has no meaning and ExaBGP does not print it"""
    out = []
    for t, payload in comps:
        if t in FL.NUMERIC:
            payload = tuple((it[0], it[1], it[2], it[3], None if (it[1] == it[2] == it[3]) else it[4]) for it in payload)
        out.append((t, payload))
    return tuple(out)


def ref_canon_for_json(rule: dict) -> tuple:
    rd, comps = FL.canon(rule)
    return (R.rd_str(rd) if rd else None, _blank_constants(comps))


# --------------------------------------------------------------------------- execution


def execute(plan: dict) -> dict:
    w = make_world(plan)
    fams = [(1, 1), (1, 133), (2, 133), (1, 134), (2, 134)]
    peer_as = 65001 if plan['ibgp'] else 65002
    config_rules = [tr for tr in plan['text_rules'] if tr['via'] == 'config']
    extra = []
    if config_rules:
        extra.append('flow {')
        for i, tr in enumerate(config_rules):
            extra.append(f'    route cfg{i} ' + rule_text(tr))
        extra.append('}')
    conf = {
        'peer_ip': '10.0.0.2', 'local_ip': LOCAL, 'local_as': 65001, 'peer_as': peer_as, 'router_id': LOCAL, 'hold': 180, 'families': fams, 'adj-rib-in': True,
        'caps': {'asn4': plan['asn4']}, 'api': {'processes': ['h1'], 'receive': ['parsed', 'update']}, 'extra': extra,
    }  # fmt: skip
    sp = Speaker(w, 'p0', '10.0.0.2', peer_as, '10.0.0.2', LOCAL, hold=180, caps=speaker_caps({'asn': peer_as, 'families': fams, 'asn4': plan['asn4']}))
    if plan.get('multisession') and config_rules:
        # multi-session BGP: exabgp opens one session per family (its neighbor is copied per family when the file is parsed);
        # the peer answers each OPEN with the multisession capability and the one family of that session
        conf['caps']['multi-session'] = True
        sp.auto_open = False

        def answer(sess) -> None:
            mine = [c for c in sp.caps if c[0] != 1]
            mp = [R.cap_mp(a, s_) for a, s_ in (sess.open_rx or {}).get('families', [])]
            sp.open_bytes = lambda s_, mp=mp, mine=mine: R.build_open(sp.asn, sp.hold, sp.router_id, mp + mine + [(68, bytes([0, 1]))])
            sp.send_open(sess)

        sp.on_open.append(answer)
    w.boot(config_text([{'name': 'h1'}], [conf]))
    h = w.procs.helper('h1')
    probes: dict = {'text_rules': len(plan['text_rules']), 'wire_rules': len(plan['wire_rules']), 'text_judged': 0, 'wire_judged': 0, 'long_nlri': 0}
    violations: list[dict] = []
    sent_wire: list = []

    def go(sess) -> None:
        if sess.index != 0:
            return
        t = 0.3
        for tr in plan['text_rules']:
            if tr['via'] == 'api':
                w.after(t, lambda tr=tr: h.emit(('peer * announce flow route ' + rule_text(tr) + '\n').encode()))
                t += plan['gap']
            elif tr['via'] == 'api-line':
                w.after(t, lambda tr=tr: h.emit(('peer * announce flow route ' + rule_text_line(tr) + '\n').encode()))
                t += plan['gap']
        base = R.attribute(R.A_ORIGIN, b'\x00') + R.attribute(R.A_AS_PATH, R.enc_as_path([(2, [peer_as])] if not plan['ibgp'] else [], plan['asn4'])) + (R.attribute(R.A_LOCAL_PREF, (100).to_bytes(4, 'big')) if plan['ibgp'] else b'')
        for wr in plan['wire_rules']:
            nl, ok = wire_bytes(wr)
            afi = wr['rule']['afi']
            safi = 134 if wr['rule'].get('rd') else 133
            mp = afi.to_bytes(2, 'big') + bytes([safi, 0, 0]) + nl
            ec = R.attribute(R.A_EXT_COMMUNITY, FL.ec_rate_bytes(0, 0.0))
            msg = R.build_update(attrs=base + ec + R.attribute(R.A_MP_REACH, mp))
            rec = {'wr': wr, 'ok': ok, 'nlri': nl, 'at': None, 'sess': None}
            sent_wire.append(rec)

            def fire(rec=rec, msg=msg) -> None:
                s = sp.sessions[-1] if sp.sessions else None
                if s is None or s.state != 'established':
                    return
                rec['at'] = w.loop.mono
                rec['sess'] = s
                s.send(msg)

            w.after(t, fire)
            t += plan['gap'] * (4 if not ok else 1)
        stage['end'] = t

    stage = {'end': 5.0}
    sp.on_established.append(go)
    w.at_end.append(lambda: judge(w, plan, sp, h, sent_wire, violations, probes))
    n = len(plan['text_rules']) + len(plan['wire_rules'])
    w.run(until=3.0 + n * plan['gap'] * 4 + 1.0)
    nontrivial = probes['text_judged'] > 0 and probes['wire_judged'] > 0
    return result(w, violations[:1], probes=probes, faults={'malformed_nlri': sum(1 for r in sent_wire if not r['ok'])}, nontrivial=nontrivial,
                  sample={'text': [rule_text(tr)[:120] for tr in plan['text_rules'][:2]], 'wire': [(wr['rule']['afi'], wr['malform']) for wr in plan['wire_rules'][:4]]})  # fmt: skip


def has_v6_offset(rule: dict) -> bool:
    return rule['afi'] == 2 and any(t in (1, 2) and payload[2] > 0 for t, payload in rule['comps'])


def judge(w, plan, sp, h, sent_wire, violations, probes) -> None:
    deferred: list[dict] = []
    try:
        _judge(w, plan, sp, h, sent_wire, violations, probes, deferred)
    finally:
        # the recorded finding (IPv6 prefix with an offset) is reported only when nothing else is wrong in the run
        violations.extend(deferred)


def _judge(w, plan, sp, h, sent_wire, violations, probes, deferred) -> None:
    # ---- direction A: what arrived at the peer for the text rules
    got: dict = {}
    first = sp.sessions[0] if sp.sessions else None
    acks = [ln for _, ln in h.lines if ln in ('done', 'error') or ln.startswith('error')]
    napi = sum(1 for tr in plan['text_rules'] if tr['via'] in ('api', 'api-line'))
    if any(a != 'done' for a in acks[:napi]):
        bad = next(i for i, a in enumerate(acks[:napi]) if a != 'done')
        tr = [t for t in plan['text_rules'] if t['via'] in ('api', 'api-line')][bad]
        errs = [ln for _, ln in h.lines if ln.startswith('error')][:1]
        violations.append(viol('C16/rule-refused', f'the API refused a rule RFC 8955/8956 allows ({tr["via"]}): {(rule_text_line(tr) if tr["via"] == "api-line" else rule_text(tr))[:300]} {errs}', afi=tr['rule']['afi'], via=tr['via']))
        return
    for sess in sp.sessions:
        for t, body, d in sess.updates:
            try:
                wd, attrs, nlri = R.split_update(body)
                alist = R.split_attributes(attrs)
            except R.RefError as exc:
                violations.append(viol('C16/update-does-not-parse', str(exc)[:200]))
                return
            ecs = set()
            for f, c, v in alist:
                if c == R.A_EXT_COMMUNITY:
                    ecs |= {v[i : i + 8].hex() for i in range(0, len(v), 8)}
            for f, c, v in alist:
                if c == R.A_MP_REACH and len(v) >= 5 and v[2] in (133, 134):
                    afi = int.from_bytes(v[:2], 'big')
                    nhl = v[3]
                    raw = v[4 + nhl + 1 :]
                    try:
                        rules = FL.dec_all(raw, afi, v[2] == 134)
                    except R.RefError as exc:
                        if afi == 2 and any(has_v6_offset(tr['rule']) for tr in plan['text_rules']):
                            probes['v6_offset_sent_unreadable'] = probes.get('v6_offset_sent_unreadable', 0) + 1
                            continue  # judged below, rule by rule
                        violations.append(viol('C16/sent-nlri-malformed', f'ExaBGP sent a FlowSpec NLRI the reference refuses: {exc}: {raw.hex()[:160]}', why=str(exc)[:40]))
                        return
                    for r in rules:
                        if len(raw) >= 240:
                            probes['long_nlri'] += 1
                        got[(afi, FL.canon(r, widths=True))] = (ecs, raw)
    seen_keys: dict = {}
    for tr in plan['text_rules']:
        k0 = (tr['rule']['afi'], FL.canon(as_ref_rule(tr['rule']), widths=True))
        seen_keys[k0] = seen_keys.get(k0, 0) + 1
    for tr in plan['text_rules']:
        ref = as_ref_rule(tr['rule'])
        try:
            FL.enc_rule(tr['rule']['afi'], ref['comps'], ref['rd'])
        except ValueError:
            continue  # longer than 4095 bytes: not expressible
        key = (tr['rule']['afi'], FL.canon(ref, widths=True))
        if seen_keys.get(key, 0) > 1:
            continue  # the same rule entered twice with different actions: the later one replaces the earlier
        probes['text_judged'] += 1
        for t, _ in tr['rule']['comps']:
            probes[f'component:{t}'] = probes.get(f'component:{t}', 0) + 1
        if key not in got and has_v6_offset(tr['rule']):
            deferred.append(viol('C16/ipv6-prefix-offset-encoding', f'`{rule_text(tr)[:200]}`: the pattern of an IPv6 prefix with an offset is not sent as RFC 8956 3.1 defines it (length - offset bits starting at the offset)', direction='text-to-wire'))
            continue
        if key not in got:
            # find the closest: same prefixes/types
            near = [k for k in got if k[0] == key[0] and [c[0] for c in k[1][1]] == [c[0] for c in key[1][1]]]
            detail = f'sent instead: {near[0][1]!r}'[:300] if near else 'no rule with these component types arrived'
            violations.append(viol('C16/wire-differs-from-text', f'`{rule_text(tr)[:260]}` -> expected {key[1]!r}'[:700] + ' ; ' + detail, afi=tr['rule']['afi'], comps=','.join(str(c[0]) for c in tr['rule']['comps'])))
            return
        ecs, raw = got[key]
        want = expected_ecs(tr['actions'])
        for a in tr['actions']:
            probes['action:' + a[0]] = probes.get('action:' + a[0], 0) + 1
        if ecs != want:
            violations.append(viol('C16/action-differs', f'`{rule_text(tr)[-200:]}` -> extended communities {sorted(ecs)}, RFC 8955 section 7: {sorted(want)}', actions=','.join(a[0] for a in tr['actions'])))
            return
    # ---- direction B: what ExaBGP reported for the wire rules
    events = []
    for _, ln in h.lines:
        if '"type": "update"' in ln and '"direction": "receive"' in ln:
            try:
                events.append(json.loads(ln))
            except ValueError:
                violations.append(viol('C16/event-unparseable', ln[:300]))
                return
    reported: list = []
    for ev in events:
        u = ev['neighbor']['message'].get('update', {})
        for famtext, byhop in u.get('announce', {}).items():
            if 'flow' not in famtext:
                continue
            afi = 1 if famtext.startswith('ipv4') else 2
            for nh, entries in byhop.items():
                for e in entries:
                    try:
                        reported.append((afi, json_rule(e, afi), e.get('string', '')))
                    except (ValueError, KeyError, IndexError) as exc:
                        if afi == 2 and any(has_v6_offset(r['wr']['rule']) for r in sent_wire):
                            probes['v6_offset_garbage_reported'] = probes.get('v6_offset_garbage_reported', 0) + 1
                            continue  # what ExaBGP makes of an NLRI with an offset (the recorded finding) need not be a readable rule
                        raise RuntimeError(f'cannot read the JSON flow rule back: {exc}: {json.dumps(e)[:300]}') from None
    rep_set = {(a, r) for a, r, _ in reported}
    for rec in sent_wire:
        if rec['at'] is None:
            continue
        wr = rec['wr']
        afi = wr['rule']['afi']
        if rec['ok']:
            ref = FL.dec_all(rec['nlri'], afi, bool(wr['rule'].get('rd')))[0]
            key = (afi, ref_canon_for_json(ref))
            probes['wire_judged'] += 1
            if key not in rep_set:
                s = rec['sess']
                if s is not None and s.state == 'closed' and s.closed_at is not None and s.closed_at < rec['at'] + 0.5 and any((not r['ok'] or has_v6_offset(r['wr']['rule'])) and r['at'] is not None and r['at'] < rec['at'] and r['sess'] is s for r in sent_wire):
                    continue  # the session was reset by an earlier malformed NLRI
                if has_v6_offset(wr['rule']):
                    deferred.append(viol('C16/ipv6-prefix-offset-encoding', f'NLRI {rec["nlri"].hex()[:100]}: an IPv6 prefix with an offset is not decoded as RFC 8956 3.1 defines it', direction='wire-to-api'))
                    continue
                near = [r for a, r, _ in reported if a == afi and [c[0] for c in r[1]] == [c[0] for c in key[1][1]]]
                diff = 'not reported'
                if near:
                    diff = 'rd' if near[0][0] != key[1][0] else ''
                    for cw, cr in zip(key[1][1], near[0][1]):
                        if cw != cr:
                            if isinstance(cw[1], tuple) and isinstance(cr[1], tuple) and len(cw[1]) == len(cr[1]) and cw[0] not in (1, 2):
                                j = next(i for i in range(len(cw[1])) if cw[1][i] != cr[1][i])
                                diff = f'component {cw[0]} operator #{j}: sent {cw[1][j]} reported {cr[1][j]}'
                            else:
                                diff = f'component {cw[0]}: sent {str(cw[1])[:120]} reported {str(cr[1])[:120]}'
                            break
                violations.append(viol('C16/reported-differs-from-wire', f'NLRI of {len(rec["nlri"])} bytes {rec["nlri"].hex()[:60]}...: {diff}', afi=afi, what=diff.split(':')[0][:40]))
                return
        else:
            probes['malformed:' + wr['malform']] = probes.get('malformed:' + wr['malform'], 0) + 1
            probes['wire_judged'] += 1
            # never delivered as a rule: nothing reported that is built from this NLRI's leading components
            ref_ok = as_ref_rule(wr['rule'], wr['widths'])
            lead = ref_canon_for_json(ref_ok)
            if has_v6_offset(wr['rule']):
                continue  # what ExaBGP makes of such an NLRI is the recorded finding above
            for a, r, text in reported:
                if a != afi:
                    continue
                # a reported rule made of a subset of this rule's components, in this rule's values, is this NLRI shortened
                mine = dict(lead[1])
                if r[1] and all(c[0] in mine and (mine[c[0]] == c[1] or (isinstance(c[1], tuple) and isinstance(mine[c[0]], tuple) and c[1] == mine[c[0]][: len(c[1])])) for c in r[1]) and r[0] == lead[0]:
                    # but not if the same rule was also sent well-formed
                    if any(o['ok'] and o['at'] is not None and ref_canon_for_json(FL.dec_all(o['nlri'], o['wr']['rule']['afi'], bool(o['wr']['rule'].get('rd')))[0]) == r for o in sent_wire):
                        continue
                    violations.append(viol('C16/malformed-nlri-delivered', f'an NLRI with {wr["malform"]} ({rec["nlri"].hex()[:100]}) was reported as the rule: {text[:200]}', malform=wr['malform'], afi=afi))
                    return


def shrink_candidates(plan: dict):
    for key in ('text_rules', 'wire_rules'):
        n = len(plan[key])
        for j in range(n):
            p = jclone(plan)
            p[key] = [plan[key][j]]
            other = 'wire_rules' if key == 'text_rules' else 'text_rules'
            p[other] = plan[other][:1]
            yield p
        for j in range(n):
            if n > 1:
                p = jclone(plan)
                del p[key][j]
                yield p
    for key in ('text_rules', 'wire_rules'):
        for j, tr in enumerate(plan[key]):
            comps = tr['rule']['comps']
            for ci in range(len(comps)):
                if len(comps) > 1:
                    p = jclone(plan)
                    del p[key][j]['rule']['comps'][ci]
                    yield p
                if comps[ci][0] not in (1, 2) and len(comps[ci][1]) > 1:
                    for keep in (1, len(comps[ci][1]) // 2):
                        p = jclone(plan)
                        p[key][j]['rule']['comps'][ci][1] = comps[ci][1][:keep]
                        yield p
            if key == 'text_rules' and len(tr['actions']) > 1:
                p = jclone(plan)
                p[key][j]['actions'] = tr['actions'][:1]
                yield p
            if key == 'text_rules' and tr['via'] == 'config':
                p = jclone(plan)
                p[key][j]['via'] = 'api'
                yield p
    kn = plan['knobs']
    if kn.get('tick') != 0.002 or kn.get('drift') or kn.get('wall_step'):
        p = jclone(plan)
        p['knobs'].update({'tick': 0.002, 'drift': 0.0, 'wall_step': 0.0})
        yield p
