"""C01 - sent UPDATEs say exactly what the operator asked for."""

from __future__ import annotations

from scenarios import routes as RT
from scenarios.common import R, Speaker, config_text, jclone, knobs, make_world, result, speaker_caps, viol

ID = 'C01'
LEVEL = 'exploration'
LEVEL_TEXT = (
    'boundary refinement through the running speaker: routes generated from structured values over the text grammar (prefix x mask x '
    'path-id x labels x RD x next hop x every attribute keyword) are announced through the real API (and the configuration file) to '
    '1-3 live sessions of different negotiated kinds at once (iBGP/eBGP, local AS above 65535, peer with/without ASN4, ADD-PATH, 4096/65535); '
    'each remote speaker decodes what arrives with the independent reference codec and compares with the structured values and the RFC '
    'defaults for that session. The schedule is not what this property quantifies over: segmentation/pass cost vary only as a metamorphic side condition.'
    ' Routes differing only by prefix and next hop (same attribute values) are announced together.'
    ' RFC 8950 on a fifth of the plans (IPv4 unicast routes with an IPv6 next hop); extended communities at the 65535/65536 AS boundary.'
)
LEVEL_NOTE = 'trusts: the reference codec (refbgp) and the text generator; session-destroying faults are off in these runs'
DESIGN_REF = 'DESIGN.md section 5, C01'
RULE = (
    'plan = 1-3 session kinds x 1-25 structured routes (API and static); non-trivial = at least one route with a non-default attribute '
    'reached a session; distinct = digests of (session kinds, route text); per-attribute-keyword counts are in the probes'
)
ASSUMPTIONS = [
    'an explicit as-path is sent as written (no prepend); only routes without as-path get the default (own AS on eBGP, empty on iBGP)',
    'LOCAL_PREF is expected absent on eBGP even when the operator wrote one (RFC 4271 5.1.5)',
    'next-hop self is not used for IPv6 routes on these IPv4 sessions; IPv6 next hops for IPv4 NLRI only when every session negotiated extended next hop',
    'extended community text target:<4-byte AS>:n is expected as RFC 5668 type 0x02',
]


def counts(tier: str):
    return (1000, 75.0) if tier == 'quick' else (15000, 900.0)


def generate(rng, tier: str, index: int) -> dict:
    nk = rng.choice([1, 2, 2, 3])
    kinds = [RT.gen_kind(rng, i) for i in range(nk)]
    if rng.chance(0.5):
        # sessions from different local addresses: "next-hop self" is the local address of *that* session
        for k in kinds:
            k['local_ip'] = f'10.0.{k["idx"]}.1' if k['idx'] else RT.LOCAL
    fams = ['v4u', 'v4u', 'v4u', 'v6u', 'v4l', 'v4vpn']
    routes = [RT.gen_route(rng, fams, any(k['addpath'] for k in kinds)) for _ in range(rng.randint(1, 25 if tier == 'thorough' else 12))]
    # unique keys so that expectations do not overwrite each other ambiguously
    seen = set()
    uniq = []
    for r in routes:
        key = (r['fam'], r['p'], r.get('pid'), r.get('rd'))
        if key in seen or any(o['p'] == r['p'] and o['fam'] == r['fam'] for o in uniq):
            continue
        seen.add(key)
        uniq.append(r)
    if rng.chance(0.4):
        # routes that differ only by prefix and next hop (same attribute values): they are queued under one attribute group and
        # must still leave with their own next hop
        bases = [r for r in uniq if r['fam'] == 'v4u' and not r.get('split')][:2]
        for bi, b in enumerate(bases):
            others = [n for n in ['10.0.0.9', '10.0.0.77', '192.0.2.254', 'self'] if n != b['nh']]
            for j in range(rng.randint(1, 3)):
                sib = jclone(b)
                sib['p'] = f'198.18.{10 * bi + j}.0/24'
                sib['nh'] = others[j % len(others)]
                uniq.insert(uniq.index(b) + 1, sib)
    nstatic = rng.randint(0, min(3, len(uniq)))
    plan = {'micro_seed': rng.randint(1, 1 << 48), 'knobs': knobs(rng), 'kinds': kinds, 'routes': uniq, 'nstatic': nstatic, 'gap': rng.choice([0.0, 0.01, 0.2])}
    f = rng.fork('nexthop-ext')  # (a side stream: the plans generated so far keep their draws)
    if f.chance(0.2):
        # RFC 8950 on every session: IPv4 unicast routes may name an IPv6 next hop; they then travel in MP_REACH_NLRI, next to others
        # that keep an IPv4 next hop in the classic fields
        for k in kinds:
            k['nexthop_ext'] = True
        for r in uniq:
            if r['fam'] == 'v4u' and r['nh'] != 'self' and f.chance(0.5):
                r['nh'] = f.choice(['2001:db8::9', '2001:db8:77::1'])
    return plan


def execute(plan: dict) -> dict:
    w = make_world(plan)
    kinds = plan['kinds']
    routes = plan['routes']
    static = [RT.route_text(r) for r in routes[: plan['nstatic']]]
    speakers = []
    for k in kinds:
        speakers.append(Speaker(w, f'p{k["idx"]}', k['peer_ip'], k['peer_as'], k['peer_ip'], k.get('local_ip', RT.LOCAL), hold=180, caps=speaker_caps(RT.kind_speaker_spec(k))))
    w.boot(config_text([{'name': 'h1'}], [RT.kind_conf(k, static=static) for k in kinds]))
    h = w.procs.helper('h1')
    w.net.split_p = 0.3
    api_routes = routes[plan['nstatic'] :]
    t = 2.0
    for r in api_routes:
        w.at(t, lambda r=r: h.emit(('peer * announce ' + RT.route_text(r) + '\n').encode()))
        t += plan['gap'] + 0.02
    violations: list[dict] = []
    w.at_end.append(lambda: judge(w, plan, kinds, routes, api_routes, speakers, h, violations))
    w.run(until=t + 6.0 + 0.05 * len(routes))
    probes: dict = {'routes': len(routes), 'static': plan['nstatic']}
    for r in routes:
        for key in r.get('attrs', {}):
            probes['kw:' + key] = probes.get('kw:' + key, 0) + 1
        probes['fam:' + r['fam']] = probes.get('fam:' + r['fam'], 0) + 1
    nontrivial = any(r.get('attrs') for r in routes)
    return result(w, violations[:1], probes=probes, faults={'segmented_delivery': 1}, nontrivial=nontrivial, sample={'kinds': [_kd(k) for k in kinds], 'routes': [RT.route_text(r) for r in routes[:3]]})


def judge(w, plan, kinds, routes, api_routes, speakers, h, violations) -> None:
    probes: dict = {'routes': len(routes), 'static': plan['nstatic']}
    for r in routes:
        for key in r.get('attrs', {}):
            probes['kw:' + key] = probes.get('kw:' + key, 0) + 1
        probes['fam:' + r['fam']] = probes.get('fam:' + r['fam'], 0) + 1
    acks = [ln for _, ln in h.lines if ln in ('done', 'error')]
    if len(acks) != len(api_routes):
        violations.append(viol('C01/ack-count', f'{len(api_routes)} announce commands, {len(acks)} replies'))
    else:
        for r, a in zip(api_routes, acks):
            if a != 'done':
                violations.append(viol('C01/route-refused', f'the API answered {a} to: {RT.route_text(r)}', fam=r['fam'], keywords=','.join(sorted(r.get('attrs', {})))))
                break
    if not violations:
        for k, sp in zip(kinds, speakers):
            sess = sp.established()
            if sess is None or len(sp.sessions) != 1:
                lost = [l[3][:200] for l in w.logs if l[1] == 'ERROR'][:2]
                violations.append(viol('C01/session-lost', f'session to {k["peer_ip"]} ({_kd(k)}) did not stay up while the routes were encoded: {lost}', kind=_kd(k)))
                break
            if sess.decode_errors:
                violations.append(viol('C01/undecodable-update', f'session {_kd(k)}: {sess.decode_errors[0][:400]}', kind=_kd(k)))
                break
            want: dict = {}
            for r in routes:
                for key, val in RT.expected_routes(r, k):
                    want[key] = (val, r)
            for key, (val, r) in want.items():
                d = RT.diff_entry(sess.table.routes.get(key), val)
                if d:
                    violations.append(viol('C01/wire-differs-from-request', f'session {_kd(k)}: `{RT.route_text(r)}` -> key {key}: {d}', kind=_kd(k), field=d.split(':')[0].split(' ')[0]))
                    break
            if violations:
                break
            extra = [key for key in sess.table.routes if key not in want]
            if extra:
                violations.append(viol('C01/unrequested-route', f'session {_kd(k)}: the peer holds {extra[:3]} which nobody announced', kind=_kd(k)))
                break


def _kd(k: dict) -> str:
    n = RT.negotiated_of(k)
    return f'{"eBGP" if n["ebgp"] else "iBGP"} local-as {k["local_as"]} asn4={n["asn4"]} add-path={n["addpath"]} max={n["max"]}'


def shrink_candidates(plan: dict):
    from exasim.runner import generic_candidates

    yield from generic_candidates(plan, ['routes'])
    if plan['nstatic']:
        p = jclone(plan)
        p['nstatic'] = 0
        yield p
    if len(plan['kinds']) > 1:
        for i in range(len(plan['kinds'])):
            p = jclone(plan)
            del p['kinds'][i]
            yield p
    for i, r in enumerate(plan['routes']):
        for key in list(r.get('attrs', {})):
            p = jclone(plan)
            del p['routes'][i]['attrs'][key]
            yield p
        for key in ('pid', 'split'):
            if r.get(key) is not None:
                p = jclone(plan)
                p['routes'][i].pop(key)
                yield p
    k = plan['knobs']
    if k.get('tick') != 0.002 or k.get('drift') or k.get('wall_step'):
        p = jclone(plan)
        p['knobs'].update({'tick': 0.002, 'drift': 0.0, 'wall_step': 0.0})
        yield p
