"""C09 - generated UPDATEs fit the negotiated size and lose nothing."""

from __future__ import annotations

from scenarios import routes as RT
from scenarios.common import R, Speaker, config_text, jclone, knobs, make_world, result, speaker_caps, viol

ID = 'C09'
LEVEL = 'exploration'
LEVEL_TEXT = (
    'boundary refinement through the running speaker: announce / withdraw sets sized to straddle the limits (N same-attribute routes with '
    'N around what fills a 4096 or 65535 byte message, attribute blocks whose community / large-community / AS_PATH attributes cross '
    '255/256 bytes and leave room for 0, 1 or 2 prefixes, IPv4 and MP families, ADD-PATH on/off, withdraws mixed in) are entered while the '
    'peer send window is closed so that one update generator packs them; the remote speaker checks every message length against the '
    'negotiated maximum, reference-decodes each message on its own, and compares the union with the structured request. '
    'Because the Adj-RIB-Out never hands the packer more than one MP route (or a mixed set) at a time, a third of the plans ("direct") '
    'take the live session\'s real Negotiated object and call UpdateCollection.messages() on one collection mixing IPv4, MP families, '
    'announces and withdraws with counts around what fills a message and attribute blocks leaving 5-300 bytes of room; same oracle.'
    " An enumerated grid steps the room left by the attributes through the MP attribute's extended-length switch; the packer is also handed routes of a family the peer did not offer."
    ' RFC 8950 for plain IPv4 unicast; grid cells where the announces end exactly on a full UPDATE and withdraws follow.'
)
LEVEL_NOTE = 'trusts: reference codec; routes whose attribute block is within 48 bytes of the point where not even one prefix fits may legitimately be sent or skipped (either is accepted), beyond that the verdict is strict'
DESIGN_REF = 'DESIGN.md section 5, C09'
RULE = (
    'plan = one session kind x 1-4 batches (kind: many-same-attributes | big-attributes | mixed | withdraw-subset) entered behind a closed '
    'window; non-trivial = at least one batch produced 2+ UPDATEs or an attribute block above 255 bytes; distinct = schedule signatures'
)
ASSUMPTIONS = [
    'routes of a family that was not negotiated are not part of these plans (all four families are negotiated)',
    'an explicit as-path is sent as written; LOCAL_PREF absent on eBGP',
]


def counts(tier: str):
    return (120, 75.0) if tier == 'quick' else (8000, 900.0)


def generate_direct(rng, tier: str, kind: dict) -> dict:
    mx = 65535 if kind['extmsg'] else 4096
    cols = []
    uid = [0]

    def fresh(fam: str) -> dict:
        uid[0] += 1
        i = uid[0]
        ap = {'pid': rng.choice([1, 2, 77])} if kind['addpath'] else {}
        if fam == 'v6u':
            bits = rng.choice([128, 128, 64, 48])
            return dict({'fam': 'v6u', 'p': str(__import__('ipaddress').ip_network(f'2001:db8:{i >> 8:x}:{i & 255:x}::{1 if bits == 128 else 0}/{bits}', strict=False)), 'nh': rng.choice(['2001:db8::1', '2001:db8::1', '2001:db8::2'])}, **ap)
        if fam == 'v4l':
            nh = rng.choice(['10.0.0.9', '2001:db8::1']) if kind.get('nexthop_ext_l') else '10.0.0.9'  # next hops of 4 and 16 bytes in one family
            return dict({'fam': 'v4l', 'p': f'10.{(i >> 16) & 255}.{(i >> 8) & 255}.{i & 255}/32', 'nh': nh, 'labels': [100 + i % 1000]}, **ap)
        if fam == 'v4vpn':
            return dict({'fam': 'v4vpn', 'p': f'10.{(i >> 16) & 255}.{(i >> 8) & 255}.{i & 255}/32', 'nh': '10.0.0.9', 'labels': [100 + i % 1000], 'rd': '65000:1'}, **ap)
        bits = rng.choice([32, 32, 24, 8])
        # RFC 8950 for plain IPv4: in every other collection the IPv4 unicast routes name an IPv6 next hop and travel in MP_REACH_NLRI
        # (one next hop per collection, as the Adj-RIB-Out groups them: the classic NEXT_HOP comes from the shared attributes)
        nh = '2001:db8::1' if kind.get('nexthop_ext') and len(cols) % 2 == 0 else '10.0.0.9'
        return dict({'fam': 'v4u', 'p': str(__import__('ipaddress').ip_network(f'10.{(i >> 16) & 255}.{(i >> 8) & 255}.{i & 255}/{bits}', strict=False)), 'nh': nh}, **ap)

    for _ in range(rng.randint(1, 3)):
        attrs = RT.gen_attrs(rng, rich=0.3)
        attrs.pop('generic', None)
        for key in ('comm', 'large', 'ext'):
            if len(attrs.get(key, [])) > 3:
                attrs[key] = attrs[key][:3]
        room = rng.choice([None, None, 5, 8, 12, 17, 20, 22, 26, 40, 60, 250, 255, 258, 262, 267, 270, 300, 600])
        if room is not None:
            room += rng.randint(-3, 3)
        sizes = {}
        for fam in ('v4u', 'v6u', 'v4l', 'v4vpn'):
            per = {'v4u': 5, 'v6u': 17, 'v4l': 8, 'v4vpn': 16}[fam] + (4 if kind['addpath'] else 0)
            fit = max(1, ((room if room is not None else mx - 100)) // per)
            if room is None and mx > 4096:
                fit = min(fit, 400)
            sizes[fam] = [rng.choice([0, 0, 0, 1, 2, 5, fit - 1, fit, fit + 1, 2 * fit + 1, 3 * fit]) if rng.chance(0.6) else 0 for _ in range(2)]
        if not any(n for v in sizes.values() for n in v):
            sizes[rng.choice(['v4u', 'v6u'])][0] = 3
        seen = set()
        ann, wd = [], []
        for fam, (na, nw) in sizes.items():
            for lst, n in ((ann, na), (wd, nw)):
                for _ in range(max(0, min(n, 1500))):
                    r = fresh(fam)
                    if (fam, r['p']) in seen:
                        continue
                    seen.add((fam, r['p']))
                    lst.append(r)
        cols.append({'attrs': attrs, 'room': room, 'announce': ann, 'withdraw': wd})
    return {'mode': 'direct', 'micro_seed': rng.randint(1, 1 << 48), 'knobs': knobs(rng, tick=0.002), 'kind': kind, 'collections': cols}


def grid(tier: str):
    """direct packing, one family at a time, the room left by the attributes stepping through the switch of the MP attribute
    to its extended-length header (255/256 bytes of value) - the cells sampling only meets now and then"""
    from exasim.choice import Rng

    plans = []
    n = 0
    rooms = range(250, 276) if tier == 'quick' else range(236, 300)
    for fam, per in (('v6u', 17), ('v4l', 8), ('v4vpn', 16)):
        for ap in (False, True):
            for room in rooms:
                n += 1
                rng = Rng(6000 + n)
                kind = RT.gen_kind(rng, 0)
                kind.pop('ap_local', None)
                kind.pop('ap_peer', None)
                kind.update({'extmsg': False, 'group_updates': True, 'addpath': ap, 'peer_drops': []})
                count = room // (per + (4 if ap else 0)) + 2
                ann = []
                for i in range(count):
                    if fam == 'v6u':
                        r = {'fam': 'v6u', 'p': f'2001:db8:0:{i + 1:x}::1/128', 'nh': '2001:db8::1'}
                    elif fam == 'v4l':
                        r = {'fam': 'v4l', 'p': f'10.0.{i >> 8}.{i & 255}/32', 'nh': '10.0.0.9', 'labels': [100 + i]}
                    else:
                        r = {'fam': 'v4vpn', 'p': f'10.0.{i >> 8}.{i & 255}/32', 'nh': '10.0.0.9', 'labels': [100 + i], 'rd': '65000:1'}
                    if ap:
                        r['pid'] = 1
                    ann.append(r)
                plans.append({'mode': 'direct', 'micro_seed': 6000 + n, 'knobs': {'tick': 0.002, 'drift': 0.0, 'wall_step': 0.0}, 'kind': kind,
                              'collections': [{'attrs': {}, 'room': room, 'announce': ann, 'withdraw': []}]})  # fmt: skip
    # classic IPv4: announces that end exactly on a full UPDATE (or up to one prefix short of it), then withdraws - the hand-over from
    # the announce loop to the withdraw loop with nothing, or something, left unsent
    for ap in (False, True):
        per = 5 + (4 if ap else 0)
        for k_ in (2, 5) if tier == 'quick' else (1, 2, 3, 5, 8):
            for e in range(per):
                for mult in (1, 2):
                    n += 1
                    rng = Rng(6000 + n)
                    kind = RT.gen_kind(rng, 0)
                    kind.pop('ap_local', None)
                    kind.pop('ap_peer', None)
                    kind.update({'extmsg': False, 'group_updates': True, 'addpath': ap, 'peer_drops': []})
                    ann = [dict({'fam': 'v4u', 'p': f'10.1.{i >> 8}.{i & 255}/32', 'nh': '10.0.0.9'}, **({'pid': 1} if ap else {})) for i in range(k_ * mult)]
                    wd = [dict({'fam': 'v4u', 'p': f'10.2.0.{i}/32', 'nh': '10.0.0.9'}, **({'pid': 1} if ap else {})) for i in range(2)]
                    plans.append({'mode': 'direct', 'micro_seed': 6000 + n, 'knobs': {'tick': 0.002, 'drift': 0.0, 'wall_step': 0.0}, 'kind': kind,
                                  'collections': [{'attrs': {}, 'room': per * k_ + e, 'announce': ann, 'withdraw': wd}]})  # fmt: skip
    return plans


def generate(rng, tier: str, index: int) -> dict:
    kind = RT.gen_kind(rng, 0)
    kind['extmsg'] = rng.chance(0.35)
    kind['group_updates'] = True
    if index % 3 == 2:
        # the packer is also handed routes of a family the session did not negotiate (configured here, not offered by the peer)
        kind['peer_drops'] = rng.choice([[], [], [], ['v4u'], ['v6u'], ['v4l', 'v4vpn']])
        kind['nexthop_ext_l'] = 'v4l' not in kind['peer_drops'] and rng.chance(0.4)
        kind['nexthop_ext'] = 'v4u' not in kind['peer_drops'] and rng.fork('nh-ext-u').chance(0.3)  # (a side stream: earlier plans keep their draws)
        return generate_direct(rng, tier, kind)
    mx = 65535 if kind['extmsg'] else 4096
    batches = []
    uid = [0]

    def fresh_prefix(v6=False):
        uid[0] += 1
        i = uid[0]
        if v6:
            import ipaddress

            return str(ipaddress.ip_network(f'2001:db8:{i >> 8:x}:{i & 255:x}::/64'))
        return f'10.{(i >> 16) & 255}.{(i >> 8) & 255}.{i & 255}/32'

    for _ in range(rng.randint(1, 3 if tier == 'quick' else 4)):
        k = rng.choice(['many', 'many', 'big', 'big', 'mixed'])
        attrs = RT.gen_attrs(rng, rich=0.3)
        attrs.pop('generic', None)
        if len(attrs.get('large', [])) > 3:
            attrs['large'] = attrs['large'][:3]
        if k == 'big' and 'aspath' in attrs and not (kind['peer_asn4'] or kind['peer_as'] > 65535):
            # towards a 2-byte peer an AS above 65535 adds an AS4_PATH the size estimate below does not know about
            attrs['aspath'] = [[t, [a if a <= 65535 else 64999 for a in seg]] for t, seg in attrs['aspath']]
        v6 = rng.chance(0.3)
        routes = []
        if k == 'many':
            per = (16 + (4 if kind['addpath'] else 0)) + 1 if v6 else (5 + (4 if kind['addpath'] else 0))
            fit = (mx - 19 - 4 - 60) // per
            n = max(1, rng.choice([fit - 20, fit - 1, fit, fit + 1, fit + 25, 2 * fit + 3]))
            n = min(n, 3000 if tier == 'quick' else 16000)
            for _ in range(n):
                routes.append({'fam': 'v6u' if v6 else 'v4u', 'p': fresh_prefix(v6), 'nh': '2001:db8::1' if v6 else '10.0.0.9', 'attrs': attrs})
        elif k == 'big':
            # attribute block close to the point where no prefix fits any more
            # (exabgp's community containers are quadratic in the number of entries, so the 65535 boundary is
            # approached with one large opaque attribute instead of thousands of communities)
            which = rng.choice(['comm', 'large', 'aspath', 'generic']) if mx == 4096 else rng.choice(['generic', 'generic', 'generic+comm'])
            room = mx - 19 - 4 - 40 - (25 if v6 else 0)
            target = room + rng.choice([-400, -60, -30, -12, -8, -4, 0, 4, 8, 12, 30, 200, 70000 if mx > 4096 else 3000])
            a = dict(attrs)
            if which == 'comm':
                a['comm'] = [[64000 + (j % 1000), j % 65536] for j in range(max(1, target // 4))]
            elif which == 'large':
                a['large'] = [[65000, j, j] for j in range(max(1, target // 12))]
            elif which == 'aspath':
                width = 4 if (kind['peer_asn4'] or kind['peer_as'] > 65535) else 2
                a['aspath'] = [[2, [64512 + (j % 100) for j in range(max(1, target // width))]]]
            elif which == 'generic':
                a['generic'] = [240, 0xC0, 'ab' * max(1, target - 4)]
            else:
                a['comm'] = [[64000 + (j % 1000), j % 65536] for j in range(64)]
                a['generic'] = [240, 0xC0, 'cd' * max(1, target - 4 - 260)]
            for _ in range(rng.randint(1, 3)):
                routes.append({'fam': 'v6u' if v6 else 'v4u', 'p': fresh_prefix(v6), 'nh': '2001:db8::1' if v6 else '10.0.0.9', 'attrs': a, 'near_limit': abs(target - room) <= 48, 'over': target - room > 48})
        else:
            for _ in range(rng.randint(5, 120)):
                routes.append(RT.gen_route(rng, ['v4u', 'v4u', 'v6u', 'v4l', 'v4vpn'], kind['addpath'], allow_split=False))
                routes[-1]['p'] = fresh_prefix(':' in routes[-1]['p']) if routes[-1]['fam'] in ('v4u', 'v6u') else routes[-1]['p']
            seen = set()
            routes = [r for r in routes if not ((r['fam'], r['p']) in seen or seen.add((r['fam'], r['p'])))]
        batches.append({'kind': k, 'routes': routes, 'withdraw_frac': rng.choice([0.0, 0.0, 0.3, 1.0])})
    return {'micro_seed': rng.randint(1, 1 << 48), 'knobs': knobs(rng, tick=rng.choice([0.001, 0.002, 0.005])), 'kind': kind, 'batches': batches}


def execute_direct(plan: dict) -> dict:
    """UpdateCollection.messages() called with the live session's Negotiated on mixed collections"""
    w = make_world(plan)
    k = plan['kind']
    sp = Speaker(w, 'p0', k['peer_ip'], k['peer_as'], k['peer_ip'], RT.LOCAL, hold=600, caps=speaker_caps(RT.kind_speaker_spec(k)))
    conf = RT.kind_conf(k)
    conf['hold'] = 600
    w.boot(config_text([{'name': 'h1'}], [conf]))
    neg = RT.negotiated_of(k)
    probes = {'collections': len(plan['collections']), 'routes': 0, 'updates': 0, 'multi_message_batches': 0, 'big_attribute_blocks': 0, 'near_limit_routes': 0, 'over_limit_routes': 0, 'mixed_family_collections': 0, 'mp_attribute_crossing_255': 0}
    violations: list[dict] = []

    def pack_all() -> None:
        from exabgp.bgp.message.update.collection import RoutedNLRI, UpdateCollection
        from exabgp.rib.route import Route  # noqa: F401

        s = sp.established()
        peer = w.peer_for(k['peer_ip'])
        if s is None or peer is None or peer.proto is None:
            raise RuntimeError('no established session for the direct packing plan')
        negotiated = peer.proto.negotiated
        api = w.reactor.api
        for col in plan['collections']:
            attrs_dict = dict(col['attrs'])

            def parse(r: dict, attrs: dict):
                routes = api.api_route(RT.route_text(dict(r, attrs=attrs)), 'announce')
                if len(routes) != 1:
                    raise RuntimeError(f'route text did not parse to one route: {RT.route_text(dict(r, attrs=attrs))[:200]}')
                return routes[0]

            first = (col['announce'] or col['withdraw'])[0]
            base = parse(first, attrs_dict)
            base_len = len(base.attributes.pack_attribute(negotiated, True))
            if col.get('room') is not None:
                filler = (neg['max'] - 23 - base_len) - col['room'] - 4
                if filler > 0:
                    attrs_dict['generic'] = [240, 0xC0, 'ab' * filler]
                    base = parse(first, attrs_dict)
            attributes = base.attributes
            attr_len = len(attributes.pack_attribute(negotiated, True))
            room = neg['max'] - 23 - attr_len
            ann = [parse(r, attrs_dict) for r in col['announce']]
            wdr = [parse(r, {}) for r in col['withdraw']]
            fams = {r['fam'] for r in col['announce']} | {r['fam'] for r in col['withdraw']}
            if len(fams) > 1:
                probes['mixed_family_collections'] += 1
            uc = UpdateCollection([RoutedNLRI(r.nlri, r.nexthop) for r in ann], [r.nlri for r in wdr], attributes)
            try:
                msgs = [bytes(m) for m in uc.messages(negotiated)]
            except Exception as exc:  # noqa: BLE001
                import traceback

                tb = [ln.strip() for ln in traceback.format_exc().splitlines() if 'File "' in ln][-2:]
                violations.append(viol('C09/packing-raised', f'UpdateCollection.messages() raised {type(exc).__name__}: {exc} {tb} (room {room}, {len(ann)} announces, {len(wdr)} withdraws, families {sorted(fams)})', error=type(exc).__name__))
                return
            table = R.PeerTable()
            withdrawn_seen = set()
            if len(msgs) > 1:
                probes['multi_message_batches'] += 1
            for m in msgs:
                probes['updates'] += 1
                if len(m) > neg['max']:
                    violations.append(viol('C09/oversized-update', f'an UPDATE of {len(m)} bytes was generated, negotiated maximum {neg["max"]} (room {room}, {len(ann)} announces, {len(wdr)} withdraws, families {sorted(fams)})', size=len(m), max=neg['max']))
                    return
                if int.from_bytes(m[16:18], 'big') != len(m) or m[18] != 2:
                    violations.append(viol('C09/update-does-not-parse', f'header length {int.from_bytes(m[16:18], "big")} for {len(m)} bytes'))
                    return
                try:
                    d = table.apply(m[19:], s.ctx)
                except R.RefError as exc:
                    violations.append(viol('C09/update-does-not-parse', f'{exc}: {m[19:].hex()[:200]}'))
                    return
                wl, al, nl = R.split_update(m[19:])
                if len(al) > 255:
                    probes['big_attribute_blocks'] += 1
                for fl, code, v in R.split_attributes(al):
                    if code in (14, 15) and 250 <= len(v) <= 262:
                        probes['mp_attribute_crossing_255'] += 1
                if d['eor'] is not None:
                    violations.append(viol('C09/unrequested-route', f'a message without any NLRI (read as End-of-RIB {d["eor"]}) was generated'))
                    return
                for n in d['withdraw']:
                    withdrawn_seen.add(R.route_key(n))
            # every requested announce present with the requested attributes, unless it cannot fit
            overhead = {'v4u': 0, 'v6u': 3 + 4 + 16 + 1 + 1, 'v4l': 3 + 4 + 4 + 1 + 1, 'v4vpn': 3 + 4 + 12 + 1 + 1}
            want_keys = set()
            for r in col['announce']:
                probes['routes'] += 1
                for key, val in RT.expected_routes(dict(r, attrs=attrs_dict), k):
                    want_keys.add(key)
                    have = table.routes.get(key)
                    nlri_len = len(R.enc_prefix(r['p'])) + (4 if neg['addpath'] else 0) + (3 * len(r.get('labels', []))) + (8 if r.get('rd') else 0)
                    over = overhead['v6u'] if r['fam'] == 'v4u' and ':' in r['nh'] else overhead[r['fam']]  # (RFC 8950: an IPv4 prefix with an IPv6 next hop travels in MP_REACH_NLRI)
                    slack = room - over - nlri_len - (12 if r['fam'] == 'v4l' and ':' in r['nh'] else 0)  # an IPv6 next hop (RFC 8950) is 12 bytes longer
                    if slack < -1:
                        probes['over_limit_routes'] += 1
                        if have is not None:
                            violations.append(viol('C09/route-not-withdrawn-or-unsendable-sent', f'{key} was sent although its attributes leave no room for it (room {room})'))
                            return
                        continue
                    if slack <= 2:
                        probes['near_limit_routes'] += 1
                        if have is None:
                            continue
                    d2 = RT.diff_entry(have, val)
                    if d2:
                        violations.append(viol('C09/route-lost-or-changed', f'direct packing (room {room}, {len(ann)} announces, {len(wdr)} withdraws, families {sorted(fams)}, {len(msgs)} messages): {key}: {d2}', what=d2.split(':')[0][:40]))
                        return
            extra = [key for key in table.routes if key not in want_keys]
            if extra:
                violations.append(viol('C09/unrequested-route', f'direct packing: messages announce {extra[:3]} which nobody requested'))
                return
            want_wd = set()
            for r in col['withdraw']:
                probes['routes'] += 1
                for key, val in RT.expected_routes(dict(r, attrs={}), k):
                    want_wd.add(key)
                    nlri_len = len(R.enc_prefix(r['p'])) + (4 if neg['addpath'] else 0) + (3 * len(r.get('labels', []))) + (8 if r.get('rd') else 0)
                    wroom = neg['max'] - 23 - attr_len  # the packer keeps the attribute room for withdraws as well: accepted
                    slack = wroom - (0 if r['fam'] == 'v4u' else 3 + 3 + 1) - nlri_len
                    if key not in withdrawn_seen and slack > 2:
                        violations.append(viol('C09/route-lost-or-changed', f'direct packing (room {room}, {len(ann)} announces, {len(wdr)} withdraws, families {sorted(fams)}, {len(msgs)} messages): withdraw of {key} is in no message', what='withdraw missing'))
                        return
            extra = [key for key in withdrawn_seen if key not in want_wd]
            if extra:
                violations.append(viol('C09/unrequested-route', f'direct packing: messages withdraw {extra[:3]} which nobody requested'))
                return

    w.at(2.0, pack_all)
    w.at(2.5, lambda: w.signal('SHUTDOWN'))
    w.run(until=30.0)
    nontrivial = probes['multi_message_batches'] + probes['big_attribute_blocks'] > 0
    return result(w, violations[:1], probes=probes, faults={'direct_collections': probes['collections']}, nontrivial=nontrivial, sample={'kind': plan['kind'], 'collections': [(c.get('room'), len(c['announce']), len(c['withdraw'])) for c in plan['collections']]})


def execute(plan: dict) -> dict:
    if plan.get('mode') == 'direct':
        return execute_direct(plan)
    w = make_world(plan)
    k = plan['kind']
    sp = Speaker(w, 'p0', k['peer_ip'], k['peer_as'], k['peer_ip'], RT.LOCAL, hold=600, caps=speaker_caps(RT.kind_speaker_spec(k)))
    conf = RT.kind_conf(k)
    conf['hold'] = 600
    w.boot(config_text([{'name': 'h1'}], [conf]))
    h = w.procs.helper('h1')
    neg = RT.negotiated_of(k)
    probes = {'batches': len(plan['batches']), 'routes': 0, 'updates': 0, 'max_update': 0, 'multi_message_batches': 0, 'big_attribute_blocks': 0, 'near_limit_routes': 0, 'over_limit_routes': 0}
    violations: list[dict] = []
    want: dict = {}
    soft: set = set()
    st = {'b': -1, 'phase': 'wait', 'ncmd': 0, 'u0': 0}

    def sess():
        return sp.established()

    def enter_batch() -> None:
        st['b'] += 1
        b = plan['batches'][st['b']]
        s = sess()
        s.conn.set_window(0)
        st['u0'] = len(s.updates)
        lines = []
        for r in b['routes']:
            lines.append('peer * announce ' + RT.route_text(r))
            probes['routes'] += 1
            for key, val in RT.expected_routes(r, k):
                if r.get('over'):
                    want[key] = None
                    probes['over_limit_routes'] += 1
                else:
                    want[key] = (val, r)
                if r.get('near_limit'):
                    soft.add(key)
                    probes['near_limit_routes'] += 1
        h.emit(('\n'.join(lines) + '\n').encode())
        st['ncmd'] += len(lines)
        st['phase'] = 'entering'

    def enter_withdraws() -> None:
        b = plan['batches'][st['b']]
        n = int(len(b['routes']) * b['withdraw_frac'])
        if not n:
            st['phase'] = 'settle'
            return
        s = sess()
        s.conn.set_window(0)
        lines = []
        for r in b['routes'][:n]:
            r2 = {kk: vv for kk, vv in r.items() if kk != 'attrs'}
            lines.append('peer * withdraw ' + RT.route_text(r2))
            for key, val in RT.expected_routes(r, k):
                want[key] = None
        h.emit(('\n'.join(lines) + '\n').encode())
        st['ncmd'] += len(lines)
        st['phase'] = 'entering-wd'

    def acks() -> int:
        return sum(1 for _, ln in h.lines if ln in ('done', 'error'))

    def driver() -> None:
        if violations:
            w.signal('SHUTDOWN')
            return
        s = sess()
        now = w.loop.mono
        if s is None:
            if now > 3.0 and len(sp.sessions) >= 1 and st['b'] >= 0:
                errs = [l[3] for l in w.logs if l[1] == 'ERROR'][:2]
                tb = [ln.strip() for e in errs for ln in e.splitlines() if 'File "' in ln or 'Error' in ln][-6:]
                violations.append(viol('C09/session-lost', f'the session was lost while the batch was encoded: {errs[0][:160] if errs else ""} {tb}', error=errs[0][:80] if errs else ''))
                w.signal('SHUTDOWN')
                return
            w.after(0.3, driver)
            return
        ph = st['phase']
        if ph == 'wait':
            if now > 1.0 and w.quiescent():
                if st['b'] + 1 >= len(plan['batches']):
                    judge_final()
                    w.signal('SHUTDOWN')
                    return
                enter_batch()
        elif ph in ('entering', 'entering-wd'):
            if acks() >= st['ncmd'] and not h.out and not w.reactor.processes._command_queue and not w.reactor.asynchronous._async:
                s.conn.set_window(None)
                st['phase'] = 'flushing' if ph == 'entering' else 'flushing-wd'
                st['t'] = now
        elif ph in ('flushing', 'flushing-wd'):
            if w.quiescent() and now > st['t'] + 0.5:
                n = len(s.updates) - st['u0']
                if n > 1:
                    probes['multi_message_batches'] += 1
                check_messages(s)
                if ph == 'flushing':
                    enter_withdraws()
                    if st['phase'] == 'settle':
                        st['phase'] = 'wait'
                else:
                    st['phase'] = 'wait'
        w.after(0.25, driver)

    def check_messages(s) -> None:
        for t, body, d in s.updates[st['u0'] :]:
            ln = 19 + len(body)
            probes['updates'] += 1
            probes['max_update'] = 0
            if ln > neg['max']:
                violations.append(viol('C09/oversized-update', f'an UPDATE of {ln} bytes was sent, negotiated maximum {neg["max"]}', size=ln, max=neg['max']))
                return
            if d is None:
                violations.append(viol('C09/update-does-not-parse', s.decode_errors[0][:300] if s.decode_errors else 'undecodable'))
                return
            wl, al, nl = R.split_update(body)
            if len(al) > 255:
                probes['big_attribute_blocks'] += 1
        st['u0'] = len(s.updates)

    def judge_final() -> None:
        s = sess()
        if s.decode_errors:
            violations.append(viol('C09/update-does-not-parse', s.decode_errors[0][:300]))
            return
        table = s.table.routes
        for key, exp in want.items():
            have = table.get(key)
            if key in soft:
                if have is not None and exp is not None:
                    d = RT.diff_entry(have, exp[0])
                    if d:
                        violations.append(viol('C09/content-differs', f'{key}: {d}'))
                        return
                continue
            if exp is None:
                if have is not None:
                    violations.append(viol('C09/route-not-withdrawn-or-unsendable-sent', f'{key} should not be at the peer (withdrawn, or its attributes leave no room for a prefix) but the peer holds it'))
                    return
                continue
            d = RT.diff_entry(have, exp[0])
            if d:
                violations.append(viol('C09/route-lost-or-changed', f'`{RT.route_text(exp[1])[:200]}` -> {key}: {d}', what=d.split(':')[0][:40]))
                return
        extra = [key for key in table if key not in want]
        if extra:
            violations.append(viol('C09/unrequested-route', f'the peer holds {extra[:3]} which nobody announced'))

    w.at(1.0, driver)
    w.run(until=4000.0)
    nontrivial = probes['multi_message_batches'] + probes['big_attribute_blocks'] > 0
    return result(w, violations[:1], probes=probes, faults={'closed_window_entries': probes['batches']}, nontrivial=nontrivial, sample={'kind': plan['kind'], 'batches': [(b['kind'], len(b['routes']), b['withdraw_frac']) for b in plan['batches']]})


def shrink_direct(plan: dict):
    from exasim.runner import generic_candidates

    if len(plan['collections']) > 1:
        for i in range(len(plan['collections'])):
            p = jclone(plan)
            p['collections'] = [plan['collections'][i]]
            yield p
    for ci, c in enumerate(plan['collections']):
        for key in ('announce', 'withdraw'):
            n = len(c[key])
            for keep in (0, 1, n // 2, n - 1):
                if 0 <= keep < n:
                    p = jclone(plan)
                    p['collections'][ci][key] = c[key][:keep]
                    if p['collections'][ci]['announce'] or p['collections'][ci]['withdraw']:
                        yield p
            for fam in ('v4u', 'v6u', 'v4l', 'v4vpn'):
                if any(r['fam'] == fam for r in c[key]) and any(r['fam'] != fam for r in c['announce'] + c['withdraw']):
                    p = jclone(plan)
                    p['collections'][ci][key] = [r for r in c[key] if r['fam'] != fam]
                    if p['collections'][ci]['announce'] or p['collections'][ci]['withdraw']:
                        yield p
        for akey in list(c['attrs']):
            p = jclone(plan)
            del p['collections'][ci]['attrs'][akey]
            yield p
    k = plan['kind']
    for key, val in (('addpath', False), ('extmsg', False)):
        if k.get(key) != val:
            p = jclone(plan)
            p['kind'][key] = val
            if key == 'addpath':
                p['kind'].pop('ap_local', None)
                p['kind'].pop('ap_peer', None)
            yield p


def shrink_candidates(plan: dict):
    if plan.get('mode') == 'direct':
        yield from shrink_direct(plan)
        return
    from exasim.runner import generic_candidates

    yield from generic_candidates(plan, ['batches'])
    for bi, b in enumerate(plan['batches']):
        if b['withdraw_frac']:
            p = jclone(plan)
            p['batches'][bi]['withdraw_frac'] = 0.0
            yield p
        n = len(b['routes'])
        for keep in (n // 2, n - 1, 1):
            if 0 < keep < n:
                p = jclone(plan)
                p['batches'][bi]['routes'] = b['routes'][:keep]
                yield p
    k = plan['kind']
    for key, val in (('addpath', False), ('extmsg', False)):
        if k.get(key) != val:
            p = jclone(plan)
            p['kind'][key] = val
            if key == 'addpath':
                p['kind'].pop('ap_local', None)
                p['kind'].pop('ap_peer', None)
            yield p
