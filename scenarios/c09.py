"""C09 - generated UPDATEs fit the negotiated size and lose nothing."""

from __future__ import annotations

from scenarios import routes as RT
from scenarios.common import R, Speaker, config_text, jclone, knobs, make_world, result, speaker_caps, viol

ID = 'C09'
LEVEL = 'exploration'
LEVEL_TEXT = (
    'boundary refinement through the running speaker: announce / withdraw sets sized to straddle the limits (N same-attribute routes with '
    'N around what fills a 4096 or 65535 byte message, attribute blocks whose community / large-community / AS_PATH attributes cross '
    '255/256 bytes and leave room for 0, 1 or 2 prefixes, IPv4 and MP families, ADD-PATH on/off, withdraws mixed in) are entered while the '
    'peer send window is closed so that one update generator packs them; the remote speaker checks every message length against the '
    'negotiated maximum, reference-decodes each message on its own, and compares the union with the structured request.'
)
LEVEL_NOTE = 'trusts: reference codec; routes whose attribute block is within 48 bytes of the point where not even one prefix fits may legitimately be sent or skipped (either is accepted), beyond that the verdict is strict'
DESIGN_REF = 'DESIGN.md section 5, C09'
RULE = (
    'plan = one session kind x 1-4 batches (kind: many-same-attributes | big-attributes | mixed | withdraw-subset) entered behind a closed '
    'window; non-trivial = at least one batch produced 2+ UPDATEs or an attribute block above 255 bytes; distinct = schedule signatures'
)
ASSUMPTIONS = [
    'routes of a family that was not negotiated are not part of these plans (all four families are negotiated)',
    'an explicit as-path is sent as written; LOCAL_PREF absent on eBGP',
]


def counts(tier: str):
    return (120, 75.0) if tier == 'quick' else (8000, 900.0)


def generate(rng, tier: str, index: int) -> dict:
    kind = RT.gen_kind(rng, 0)
    kind['extmsg'] = rng.chance(0.35)
    kind['group_updates'] = True
    mx = 65535 if kind['extmsg'] else 4096
    batches = []
    uid = [0]

    def fresh_prefix(v6=False):
        uid[0] += 1
        i = uid[0]
        if v6:
            import ipaddress

            return str(ipaddress.ip_network(f'2001:db8:{i >> 8:x}:{i & 255:x}::/64'))
        return f'10.{(i >> 16) & 255}.{(i >> 8) & 255}.{i & 255}/32'

    for _ in range(rng.randint(1, 3 if tier == 'quick' else 4)):
        k = rng.choice(['many', 'many', 'big', 'big', 'mixed'])
        attrs = RT.gen_attrs(rng, rich=0.3)
        attrs.pop('generic', None)
        if len(attrs.get('large', [])) > 3:
            attrs['large'] = attrs['large'][:3]
        v6 = rng.chance(0.3)
        routes = []
        if k == 'many':
            per = (16 + (4 if kind['addpath'] else 0)) + 1 if v6 else (5 + (4 if kind['addpath'] else 0))
            fit = (mx - 19 - 4 - 60) // per
            n = max(1, rng.choice([fit - 20, fit - 1, fit, fit + 1, fit + 25, 2 * fit + 3]))
            n = min(n, 3000 if tier == 'quick' else 16000)
            for _ in range(n):
                routes.append({'fam': 'v6u' if v6 else 'v4u', 'p': fresh_prefix(v6), 'nh': '2001:db8::1' if v6 else '10.0.0.9', 'attrs': attrs})
        elif k == 'big':
            # attribute block close to the point where no prefix fits any more
            # (exabgp's community containers are quadratic in the number of entries, so the 65535 boundary is
            # approached with one large opaque attribute instead of thousands of communities)
            which = rng.choice(['comm', 'large', 'aspath', 'generic']) if mx == 4096 else rng.choice(['generic', 'generic', 'generic+comm'])
            room = mx - 19 - 4 - 40 - (25 if v6 else 0)
            target = room + rng.choice([-400, -60, -30, -12, -8, -4, 0, 4, 8, 12, 30, 200, 70000 if mx > 4096 else 3000])
            a = dict(attrs)
            if which == 'comm':
                a['comm'] = [[64000 + (j % 1000), j % 65536] for j in range(max(1, target // 4))]
            elif which == 'large':
                a['large'] = [[65000, j, j] for j in range(max(1, target // 12))]
            elif which == 'aspath':
                width = 4 if (kind['peer_asn4'] or kind['peer_as'] > 65535) else 2
                a['aspath'] = [[2, [64512 + (j % 100) for j in range(max(1, target // width))]]]
            elif which == 'generic':
                a['generic'] = [240, 0xC0, 'ab' * max(1, target - 4)]
            else:
                a['comm'] = [[64000 + (j % 1000), j % 65536] for j in range(64)]
                a['generic'] = [240, 0xC0, 'cd' * max(1, target - 4 - 260)]
            for _ in range(rng.randint(1, 3)):
                routes.append({'fam': 'v6u' if v6 else 'v4u', 'p': fresh_prefix(v6), 'nh': '2001:db8::1' if v6 else '10.0.0.9', 'attrs': a, 'near_limit': abs(target - room) <= 48, 'over': target - room > 48})
        else:
            for _ in range(rng.randint(5, 120)):
                routes.append(RT.gen_route(rng, ['v4u', 'v4u', 'v6u', 'v4l', 'v4vpn'], kind['addpath'], allow_split=False))
                routes[-1]['p'] = fresh_prefix(':' in routes[-1]['p']) if routes[-1]['fam'] in ('v4u', 'v6u') else routes[-1]['p']
            seen = set()
            routes = [r for r in routes if not ((r['fam'], r['p']) in seen or seen.add((r['fam'], r['p'])))]
        batches.append({'kind': k, 'routes': routes, 'withdraw_frac': rng.choice([0.0, 0.0, 0.3, 1.0])})
    return {'micro_seed': rng.randint(1, 1 << 48), 'knobs': knobs(rng, tick=rng.choice([0.001, 0.002, 0.005])), 'kind': kind, 'batches': batches}


def execute(plan: dict) -> dict:
    w = make_world(plan)
    k = plan['kind']
    sp = Speaker(w, 'p0', k['peer_ip'], k['peer_as'], k['peer_ip'], RT.LOCAL, hold=600, caps=speaker_caps(RT.kind_speaker_spec(k)))
    conf = RT.kind_conf(k)
    conf['hold'] = 600
    w.boot(config_text([{'name': 'h1'}], [conf]))
    h = w.procs.helper('h1')
    neg = RT.negotiated_of(k)
    probes = {'batches': len(plan['batches']), 'routes': 0, 'updates': 0, 'max_update': 0, 'multi_message_batches': 0, 'big_attribute_blocks': 0, 'near_limit_routes': 0, 'over_limit_routes': 0}
    violations: list[dict] = []
    want: dict = {}
    soft: set = set()
    st = {'b': -1, 'phase': 'wait', 'ncmd': 0, 'u0': 0}

    def sess():
        return sp.established()

    def enter_batch() -> None:
        st['b'] += 1
        b = plan['batches'][st['b']]
        s = sess()
        s.conn.set_window(0)
        st['u0'] = len(s.updates)
        lines = []
        for r in b['routes']:
            lines.append('peer * announce ' + RT.route_text(r))
            probes['routes'] += 1
            for key, val in RT.expected_routes(r, k):
                if r.get('over'):
                    want[key] = None
                    probes['over_limit_routes'] += 1
                else:
                    want[key] = (val, r)
                if r.get('near_limit'):
                    soft.add(key)
                    probes['near_limit_routes'] += 1
        h.emit(('\n'.join(lines) + '\n').encode())
        st['ncmd'] += len(lines)
        st['phase'] = 'entering'

    def enter_withdraws() -> None:
        b = plan['batches'][st['b']]
        n = int(len(b['routes']) * b['withdraw_frac'])
        if not n:
            st['phase'] = 'settle'
            return
        s = sess()
        s.conn.set_window(0)
        lines = []
        for r in b['routes'][:n]:
            r2 = {kk: vv for kk, vv in r.items() if kk != 'attrs'}
            lines.append('peer * withdraw ' + RT.route_text(r2))
            for key, val in RT.expected_routes(r, k):
                want[key] = None
        h.emit(('\n'.join(lines) + '\n').encode())
        st['ncmd'] += len(lines)
        st['phase'] = 'entering-wd'

    def acks() -> int:
        return sum(1 for _, ln in h.lines if ln in ('done', 'error'))

    def driver() -> None:
        if violations:
            w.signal('SHUTDOWN')
            return
        s = sess()
        now = w.loop.mono
        if s is None:
            if now > 3.0 and len(sp.sessions) >= 1 and st['b'] >= 0:
                errs = [l[3] for l in w.logs if l[1] == 'ERROR'][:2]
                tb = [ln.strip() for e in errs for ln in e.splitlines() if 'File "' in ln or 'Error' in ln][-6:]
                violations.append(viol('C09/session-lost', f'the session was lost while the batch was encoded: {errs[0][:160] if errs else ""} {tb}', error=errs[0][:80] if errs else ''))
                w.signal('SHUTDOWN')
                return
            w.after(0.3, driver)
            return
        ph = st['phase']
        if ph == 'wait':
            if now > 1.0 and w.quiescent():
                if st['b'] + 1 >= len(plan['batches']):
                    judge_final()
                    w.signal('SHUTDOWN')
                    return
                enter_batch()
        elif ph in ('entering', 'entering-wd'):
            if acks() >= st['ncmd'] and not h.out and not w.reactor.processes._command_queue and not w.reactor.asynchronous._async:
                s.conn.set_window(None)
                st['phase'] = 'flushing' if ph == 'entering' else 'flushing-wd'
                st['t'] = now
        elif ph in ('flushing', 'flushing-wd'):
            if w.quiescent() and now > st['t'] + 0.5:
                n = len(s.updates) - st['u0']
                if n > 1:
                    probes['multi_message_batches'] += 1
                check_messages(s)
                if ph == 'flushing':
                    enter_withdraws()
                    if st['phase'] == 'settle':
                        st['phase'] = 'wait'
                else:
                    st['phase'] = 'wait'
        w.after(0.25, driver)

    def check_messages(s) -> None:
        for t, body, d in s.updates[st['u0'] :]:
            ln = 19 + len(body)
            probes['updates'] += 1
            probes['max_update'] = 0
            if ln > neg['max']:
                violations.append(viol('C09/oversized-update', f'an UPDATE of {ln} bytes was sent, negotiated maximum {neg["max"]}', size=ln, max=neg['max']))
                return
            if d is None:
                violations.append(viol('C09/update-does-not-parse', s.decode_errors[0][:300] if s.decode_errors else 'undecodable'))
                return
            wl, al, nl = R.split_update(body)
            if len(al) > 255:
                probes['big_attribute_blocks'] += 1
        st['u0'] = len(s.updates)

    def judge_final() -> None:
        s = sess()
        if s.decode_errors:
            violations.append(viol('C09/update-does-not-parse', s.decode_errors[0][:300]))
            return
        table = s.table.routes
        for key, exp in want.items():
            have = table.get(key)
            if key in soft:
                if have is not None and exp is not None:
                    d = RT.diff_entry(have, exp[0])
                    if d:
                        violations.append(viol('C09/content-differs', f'{key}: {d}'))
                        return
                continue
            if exp is None:
                if have is not None:
                    violations.append(viol('C09/route-not-withdrawn-or-unsendable-sent', f'{key} should not be at the peer (withdrawn, or its attributes leave no room for a prefix) but the peer holds it'))
                    return
                continue
            d = RT.diff_entry(have, exp[0])
            if d:
                violations.append(viol('C09/route-lost-or-changed', f'`{RT.route_text(exp[1])[:200]}` -> {key}: {d}', what=d.split(':')[0][:40]))
                return
        extra = [key for key in table if key not in want]
        if extra:
            violations.append(viol('C09/unrequested-route', f'the peer holds {extra[:3]} which nobody announced'))

    w.at(1.0, driver)
    w.run(until=4000.0)
    nontrivial = probes['multi_message_batches'] + probes['big_attribute_blocks'] > 0
    return result(w, violations[:1], probes=probes, faults={'closed_window_entries': probes['batches']}, nontrivial=nontrivial, sample={'kind': plan['kind'], 'batches': [(b['kind'], len(b['routes']), b['withdraw_frac']) for b in plan['batches']]})


def shrink_candidates(plan: dict):
    from exasim.runner import generic_candidates

    yield from generic_candidates(plan, ['batches'])
    for bi, b in enumerate(plan['batches']):
        if b['withdraw_frac']:
            p = jclone(plan)
            p['batches'][bi]['withdraw_frac'] = 0.0
            yield p
        n = len(b['routes'])
        for keep in (n // 2, n - 1, 1):
            if 0 < keep < n:
                p = jclone(plan)
                p['batches'][bi]['routes'] = b['routes'][:keep]
                yield p
    k = plan['kind']
    for key, val in (('addpath', False), ('extmsg', False)):
        if k.get(key) != val:
            p = jclone(plan)
            p['kind'][key] = val
            yield p
