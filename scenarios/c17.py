"""C17 - configuration reload applies the difference, or nothing at all."""

from __future__ import annotations

from scenarios import ribworld as RW
from scenarios.common import R, Speaker, config_text, jclone, knobs, make_world, result, speaker_caps, viol, wire_messages

ID = 'C17'
LEVEL = 'exploration'
LEVEL_TEXT = (
    'seeded exploration of configuration edit sequences (add/remove/change routes, add/remove neighbor, change a session parameter) x '
    'reload faults (syntax error at line k, unknown keyword, value that makes a parser raise, torn write at byte k, ENOENT, EACCES, EIO '
    'after line k) x session state (up, down, dying during the reload) x API-announced routes, with the fault-kind x position grid '
    'enumerated for a fixed configuration pair; oracle after success: every remaining peer table == new configuration routes + live API '
    'routes, removed neighbors closed with a cease; after failure: neighbors, parameters, Adj-RIB-Out and sessions unchanged, no UPDATE '
    'emitted, and a later API announce is acknowledged and reaches the peers.'
    ' Edits include an address family or a second helper process appearing/disappearing and neighbor blocks in any order; neighbors may be passive or without adj-rib-in; the API may announce a prefix the new file dropped right after the reload; files refused only by the late validation; helper processes judged too.'
)
LEVEL_NOTE = 'trusts: simulated file system faults (exasim.world.SimFS), reference decoder, the result of Configuration.reload() observed by a pass-through wrapper'
DESIGN_REF = 'DESIGN.md section 5, C17'
RULE = (
    'plan = initial configuration (1-3 neighbors, 0-6 static routes each) x 1-5 reload steps (edit list, optional fault, trigger via signal '
    'or API, sessions up/down/dying, API operations before); non-trivial = at least one reload executed with a fault or with a session '
    'not up or with API routes present; distinct = schedule signatures'
)
ASSUMPTIONS = [
    'a reload request that exabgp never executes (main loop re-arms the flag while an Adj-RIB-Out is pending) is counted as a probe: the property speaks of reloads that ran',
    'API routes and configuration routes use disjoint prefix pools except where marked (those keys are judged peer==reported only)',
]

LOCAL = '10.0.0.1'
FAULTS = ['syntax', 'keyword', 'raise', 'torn', 'enoent', 'eacces', 'eio', 'brace', 'semantic']


def counts(tier: str):
    return (900, 75.0) if tier == 'quick' else (15000, 900.0)


def base_model(rng, nn: int, nvar: int) -> dict:
    m = {'neighbors': {}}
    for i in sorted(rng.sample([0, 1, 2], nn)):  # not always from the first: a later reload can add a neighbor in front of the running ones
        routes = {}
        for p in rng.sample(RW.CONF_PREFIXES + ['192.0.6.0/24', '192.0.7.0/24'], rng.randint(0, 5)):
            routes[p] = {'nh': rng.choice(['self', '10.0.0.9']), 'v': rng.randint(0, nvar - 1)}
        m['neighbors'][str(i)] = {'idx': i, 'hold': rng.choice([30, 90]), 'routes': routes, 'aro': rng.chance(0.75)}  # aro: adj-rib-out enabled
        # ari: adj-rib-in kept (the default) or not; passive: exabgp waits for the peer to connect (and does nothing for it while it is away)
        m['neighbors'][str(i)].update({'ari': rng.chance(0.75), 'passive': rng.chance(0.25)})
    return m


def gen_edits(rng, model: dict, nvar: int, max_nbr: int) -> list[dict]:
    edits = []
    present = sorted(model['neighbors'])
    for _ in range(rng.randint(1, 4)):
        k = rng.random()
        i = rng.choice(present) if present else '0'
        if k < 0.3:
            edits.append({'e': 'add-route', 'n': i, 'p': rng.choice(RW.CONF_PREFIXES + ['192.0.6.0/24', '192.0.7.0/24', '192.0.8.0/24']), 'nh': rng.choice(['self', '10.0.0.9']), 'v': rng.randint(0, nvar - 1)})
        elif k < 0.5:
            edits.append({'e': 'del-route', 'n': i, 'k': rng.randint(0, 5)})
        elif k < 0.75:
            edits.append({'e': 'chg-route', 'n': i, 'k': rng.randint(0, 5), 'nh': rng.choice(['self', '10.0.0.9', '10.0.0.77']), 'v': rng.randint(0, nvar - 1)})
        elif k < 0.80:
            edits.append({'e': 'chg-hold', 'n': i})
        elif k < 0.84:
            # the neighbor gains (or loses) an address family together with a configured route of that family
            edits.append({'e': 'tgl-family', 'n': i, 'v': rng.randint(0, nvar - 1)})
        elif k < 0.87:
            # a second helper process section appears in (or disappears from) the file
            edits.append({'e': 'tgl-proc', 'n': i})
        elif k < 0.92:
            edits.append({'e': 'del-nbr', 'n': i})
        else:
            edits.append({'e': 'add-nbr', 'n': str(rng.randint(0, max_nbr - 1))})
    return edits


def rng_nh6(nh4: str) -> str:
    """an IPv6 next hop standing in for the IPv4 one an edit names (`self` would need an IPv6 session)"""
    return {'self': '2001:db8::1', '10.0.0.9': '2001:db8::9', '10.0.0.77': '2001:db8::77'}.get(nh4, '2001:db8::1')


def apply_edits(model: dict, edits: list[dict]) -> dict:
    m = jclone(model)
    for e in edits:
        nb = m['neighbors'].get(e['n'])
        k = e['e']
        if k == 'tgl-proc':
            m['h2'] = not m.get('h2', False)
            continue
        if k == 'add-nbr':
            if e['n'] not in m['neighbors']:
                m['neighbors'][e['n']] = {'idx': int(e['n']), 'hold': 90, 'routes': {'192.0.9.0/24': {'nh': 'self', 'v': 0}}}
            continue
        if nb is None:
            continue
        if k == 'add-route':
            nb['routes'][e['p']] = {'nh': e['nh'], 'v': e['v']}
        elif k == 'del-route-p':
            nb['routes'].pop(e['p'], None)
        elif k == 'del-route' and nb['routes']:
            key = sorted(nb['routes'])[e['k'] % len(nb['routes'])]
            del nb['routes'][key]
        elif k == 'chg-route' and nb['routes']:
            key = sorted(nb['routes'])[e['k'] % len(nb['routes'])]
            nb['routes'][key] = {'nh': e['nh'] if ':' not in key else rng_nh6(e['nh']), 'v': e['v']}
        elif k == 'chg-hold':
            nb['hold'] = 90 if nb['hold'] != 90 else 45
        elif k == 'tgl-family':
            p6 = f'2001:db8:{nb["idx"]}::/48'
            if nb.get('v6'):
                nb['v6'] = False
                nb['routes'].pop(p6, None)
            else:
                nb['v6'] = True
                nb['routes'][p6] = {'nh': '2001:db8::1', 'v': e['v']}
        elif k == 'del-nbr' and len(m['neighbors']) > 1:
            del m['neighbors'][e['n']]
    return m


def model_text(model: dict, variants, order: int = 0) -> str:
    confs = []
    keys = sorted(model['neighbors'])
    if order:
        from exasim.choice import Rng

        Rng(order).shuffle(keys)  # the order of the neighbor blocks in the file is the operator's
    for key in keys:
        nb = model['neighbors'][key]
        i = nb['idx']
        static = [RW.route_text({'p': p, 'nh': r['nh'], 'v': r['v']}, variants) for p, r in sorted(nb['routes'].items())]
        confs.append(
            {
                'peer_ip': RW.PEER_IPS[i], 'local_ip': LOCAL, 'local_as': 65001, 'peer_as': RW.PEER_AS[i], 'router_id': LOCAL, 'hold': nb['hold'],
                'families': [(1, 1)] + ([(2, 1)] if nb.get('v6') else []), 'adj-rib-out': nb.get('aro', True), 'api': {'processes': ['h1']}, 'static': static,
            }
        )  # fmt: skip
        if not nb.get('ari', True):
            confs[-1]['adj-rib-in'] = False
        if nb.get('passive'):
            confs[-1]['passive'] = True
    return config_text([{'name': 'h1'}] + ([{'name': 'h2'}] if model.get('h2') else []), confs)


def break_text(text: str, fault: dict) -> tuple[str, tuple | None]:
    """-> (file content, fs fault)"""
    k = fault['kind']
    lines = text.split('\n')
    pos = fault['pos'] % max(1, len(lines))
    if k == 'syntax':
        lines.insert(pos, '    this is not exabgp configuration ;')
        return '\n'.join(lines), None
    if k == 'keyword':
        lines.insert(pos, '    frobnicate true;')
        return '\n'.join(lines), None
    if k == 'brace':
        lines.insert(pos, '}')
        return '\n'.join(lines), None
    if k == 'raise':
        for i, ln in enumerate(lines):
            if 'next-hop' in ln and i >= pos:
                lines[i] = ln.replace('next-hop self', 'next-hop 999.2.3.4').replace('next-hop 10.0.0.9', 'next-hop 999.2.3.4')
                break
        else:
            lines.insert(max(1, pos), '    hold-time banana;')
        return '\n'.join(lines), None
    if k == 'semantic':
        # every statement parses; the file as a whole is refused late (after the new neighbors were built): a neighbor uses a
        # helper process nobody defines, or `processes` together with `processes-match`
        hits = [i for i, ln in enumerate(lines) if 'processes [ h1 ];' in ln]
        if hits:
            i = hits[pos % len(hits)]
            if pos % 2:
                lines[i] = lines[i].replace('processes [ h1 ];', 'processes [ ghost ];')
            else:
                lines.insert(i + 1, lines[i].replace('processes [ h1 ];', 'processes-match [ "^h" ];'))
        return '\n'.join(lines), None
    if k == 'torn':
        cut = fault['pos'] % max(1, len(text))
        return text[:cut], None
    if k == 'enoent':
        return text, ('enoent',)
    if k == 'eacces':
        return text, ('eacces',)
    if k == 'eio':
        return text, ('eio', pos)
    return text, None


def generate(rng, tier: str, index: int) -> dict:
    nvar = 3
    variants = RW.gen_variants(rng, nvar)
    nn = rng.choice([1, 2, 2, 3])
    model = base_model(rng, nn, nvar)
    steps = []
    cur = model
    reann: list = []
    for _ in range(rng.randint(1, 5)):
        edits = gen_edits(rng, cur, nvar, 3)
        fault = None
        if rng.chance(0.5):
            fault = {'kind': rng.choice(FAULTS), 'pos': rng.randint(0, 400)}
        api_ops = []
        for _ in range(rng.randint(0, 3)):
            r = {'p': rng.choice(RW.API_PREFIXES[:4]), 'pid': None, 'nh': rng.choice(['10.0.0.9', 'self']), 'v': rng.randint(0, nvar - 1)}
            api_ops.append({'op': rng.choice(['ann', 'ann', 'wd']), 'route': r})
        # a configured prefix an earlier step handed over to the API is not configured again (whose route it is must stay unambiguous)
        edits = [e for e in edits if not (e['e'] == 'add-route' and [e['n'], e['p']] in reann)]
        post_ops = []
        if fault is None:
            nxt = apply_edits(cur, edits)
            for key, nb in cur['neighbors'].items():
                gone = sorted(p for p in nb['routes'] if key in nxt['neighbors'] and p not in nxt['neighbors'][key]['routes'] and ':' not in p)
                if gone and rng.chance(0.5):
                    # right after the reload (the session may still be down) the operator announces, through the API, a prefix
                    # the new file no longer configures for this neighbor
                    p = rng.choice(gone)
                    post_ops.append({'nbr': nb['idx'], 'p': p, 'nh': rng.choice(['10.0.0.9', 'self']), 'v': rng.randint(0, nvar - 1)})
                    reann.append([key, p])
        steps.append(
            {
                'edits': edits, 'fault': fault, 'via': rng.choice(['signal', 'signal', 'api']), 'api_ops': api_ops, 'post_ops': post_ops,
                'order': rng.choice([0, 0, rng.randint(1, 1 << 30)]),
                'sessions': {str(i): rng.choice(['up', 'up', 'up', 'down', 'die', 'opensent']) for i in range(3)}, 'gap': rng.choice([0.0, 0.05, 1.0]),
            }
        )  # fmt: skip
        if fault is None:
            cur = apply_edits(cur, edits)
    if rng.chance(0.12) and model['neighbors']:
        # a configuration that only lives between two reloads, both taken while the session is away: the first changes the
        # neighbor itself (hold time) and adds a route, the second takes the route out again
        key = rng.choice(sorted(model['neighbors']))
        if rng.chance(0.6):
            model['neighbors'][key]['passive'] = True  # a peer exabgp does nothing for while its session is away
        p = '192.0.10.0/24'
        down = {str(i): ('down' if str(i) == key else 'up') for i in range(3)}
        motif = [
            {'edits': [{'e': 'chg-hold', 'n': key}, {'e': 'add-route', 'n': key, 'p': p, 'nh': '10.0.0.9', 'v': 0}], 'fault': None, 'via': 'signal', 'api_ops': [], 'post_ops': [], 'order': 0, 'sessions': down, 'gap': 0.05},
            {'edits': [{'e': 'del-route-p', 'n': key, 'p': p}], 'fault': None, 'via': 'signal', 'api_ops': [], 'post_ops': [], 'order': 0, 'sessions': down, 'gap': 0.05},
        ]
        steps = motif + [st_ for st_ in steps if st_['fault'] is not None][:1]
    return {'micro_seed': rng.randint(1, 1 << 48), 'knobs': knobs(rng), 'variants': variants, 'model': model, 'steps': steps}


def grid(tier: str):
    """fault kind x position for a fixed configuration pair"""
    variants = [{'med': 100}, {'med': 101, 'comm': [[65000, 1]]}, {'med': 102}]
    model = {
        'neighbors': {
            '0': {'idx': 0, 'hold': 30, 'routes': {'192.0.2.0/24': {'nh': 'self', 'v': 0}, '192.0.3.0/24': {'nh': '10.0.0.9', 'v': 1}}},
            '1': {'idx': 1, 'hold': 30, 'routes': {'192.0.4.0/24': {'nh': 'self', 'v': 2}}},
        }
    }
    edits = [{'e': 'add-route', 'n': '0', 'p': '192.0.6.0/24', 'nh': 'self', 'v': 1}, {'e': 'chg-route', 'n': '1', 'k': 0, 'nh': '10.0.0.77', 'v': 0}, {'e': 'del-route', 'n': '0', 'k': 0}]
    plans = []
    n = 0
    positions = [1, 6, 14, 22, 30, 38, 45] if tier == 'quick' else list(range(0, 50, 2))
    for kind in FAULTS:
        for pos in positions if kind not in ('enoent', 'eacces') else [0]:
            n += 1
            plans.append(
                {
                    'micro_seed': 5000 + n, 'knobs': {'tick': 0.002, 'drift': 0.0, 'wall_step': 0.0}, 'variants': variants, 'model': model,
                    'steps': [{'edits': edits, 'fault': {'kind': kind, 'pos': pos if kind != 'torn' else pos * 37}, 'via': 'signal', 'api_ops': [{'op': 'ann', 'route': {'p': '198.51.100.0/24', 'pid': None, 'nh': '10.0.0.9', 'v': 0}}], 'sessions': {'0': 'up', '1': 'up', '2': 'up'}, 'gap': 0.0}],
                }
            )  # fmt: skip
    return plans


def execute(plan: dict) -> dict:
    plan = jclone(plan)
    plan.setdefault('knobs', {}).update({'listen_ip': LOCAL, 'listen_port': 1790})
    w = make_world(plan)
    variants = plan['variants']
    model = jclone(plan['model'])
    speakers = {}
    for i in range(3):
        speakers[i] = Speaker(w, f'p{i}', RW.PEER_IPS[i], RW.PEER_AS[i], RW.PEER_IPS[i], LOCAL, hold=90, caps=speaker_caps({'asn': RW.PEER_AS[i], 'families': [(1, 1), (2, 1)]}))
    w.boot(model_text(model, variants))
    h = w.procs.helper('h1')

    api_routes: dict[int, dict] = {i: {} for i in range(3)}  # neighbor idx -> key -> (nh, med)
    probes = {'reloads_run': 0, 'reloads_ok': 0, 'reloads_failed': 0, 'reload_dropped': 0, 'sessions_down_at_reload': 0, 'sessions_died_during_reload': 0, 'api_routes_at_reload': 0, 'canary_checks': 0}
    faults: dict = {}
    violations: list[dict] = []
    st = {'step': -1, 'phase': 'boot', 't': 0.0, 'before': None, 'nreload': 0, 'down': set(), 'canary': 0, 'acks': 0, 'stable': 0}

    def expected_table(mdl: dict, i: int) -> dict:
        out = {}
        nb = mdl['neighbors'].get(str(i))
        if nb is None:
            return out
        for p, r in nb['routes'].items():
            out[RW.key_of(p, None, False)] = (LOCAL if r['nh'] == 'self' else r['nh'], variants[r['v']]['med'])
        if not st.get('api_unknown'):
            out.update(api_routes[i])
        return out

    def is_conf_key(k, i) -> bool:
        return (k[3].startswith('192.0.') or k[3].startswith('2001:db8:')) and k not in api_routes[i]

    def snapshot_state() -> dict:
        conf = w.reactor.configuration
        return {
            'neighbors': sorted(conf.neighbors.keys()),
            'holds': {k: int(n.hold_time) for k, n in conf.neighbors.items()},
            'peers': sorted(w.reactor._peers.keys()),
            'rep': {i: ({k: ((LOCAL if v[0] == 'self' else v[0]),) + tuple(v[1:]) for k, v in RW.reported_table(w.peer_for(RW.PEER_IPS[i]).neighbor, False).items()} if w.peer_for(RW.PEER_IPS[i]) else None) for i in range(3)},
            'sess': {i: (speakers[i].established().index if speakers[i].established() else None) for i in range(3)},
            'tx': len(w.net.tx_log),
            'mono': w.loop.mono,
            'procs': sorted(w.reactor.processes._process.keys()),
            'spawned': len(w.procs.spawned),
        }

    def sessions_ok(mdl: dict) -> bool:
        for key, nb in mdl['neighbors'].items():
            i = nb['idx']
            if i in st['down']:
                continue
            if speakers[i].established() is None:
                return False
        return True

    no_aro_seen: set = set()

    def check_tables(mdl: dict, where: str) -> None:
        for key, nb in mdl['neighbors'].items():
            i = nb['idx']
            if not nb.get('aro', True):
                no_aro_seen.add(i)
            sess = speakers[i].established()
            peer = w.peer_for(RW.PEER_IPS[i])
            if sess is None or peer is None:
                continue
            if sess.decode_errors:
                violations.append(viol('C17/undecodable-update', sess.decode_errors[0][:300]))
                return
            if i in no_aro_seen and len(speakers[i].sessions) > 1:
                continue  # without an Adj-RIB-Out nothing is replayed to a new session (recorded as an adjacent finding, not judged)
            pv = RW.peer_view(sess.table)
            want = expected_table(mdl, i)
            bad = RW.attrs_mismatch(sess.table, variants + [{'med': 99}], {'peer_as': RW.PEER_AS[i], 'local_as': 65001})
            if bad:
                violations.append(viol('C17/attributes-differ-from-request', f'neighbor {RW.PEER_IPS[i]} ({where}, step {st["step"]}): {bad}', where=where))
                return
            if st.get('api_unknown'):
                # an unmodelled configuration was live for a while: API routes are judged peer == reported only
                pv_all = pv
                pv = {k: v for k, v in pv.items() if is_conf_key(k, i)}
            if pv != want:
                d = RW.diff_tables(pv, want, 'peer', 'expected')
                violations.append(viol('C17/peer-table-after-' + where, f'neighbor {RW.PEER_IPS[i]} ({where}, step {st["step"]}): ' + '; '.join(d), where=where))
                return
            if not mdl['neighbors'].get(str(i), {}).get('aro', True):
                continue  # no Adj-RIB-Out is kept for this neighbor: the peer's table against the model is the whole judgement
            rep = {k: ((LOCAL if v[0] == 'self' else v[0]),) + tuple(v[1:]) for k, v in RW.reported_table(peer.neighbor, False).items()}
            if st.get('api_unknown'):
                if rep != pv_all:
                    d = RW.diff_tables(pv_all, rep, 'peer', 'adj-rib-out')
                    violations.append(viol('C17/peer-differs-from-adj-rib-out', f'neighbor {RW.PEER_IPS[i]} ({where}): ' + '; '.join(d)))
                    return
                rep = {k: v for k, v in rep.items() if is_conf_key(k, i)}
            if rep != want:
                d = RW.diff_tables(rep, want, 'adj-rib-out', 'expected')
                violations.append(viol('C17/adj-rib-out-after-' + where, f'neighbor {RW.PEER_IPS[i]} ({where}, step {st["step"]}): ' + '; '.join(d), where=where))
                return

    def driver() -> None:
        nonlocal model
        if violations:
            w.signal('SHUTDOWN')
            return
        now = w.loop.mono
        ph = st['phase']
        if ph == 'boot':
            if now > 1.5 and sessions_ok(model) and w.quiescent():
                check_tables(model, 'boot')
                st['phase'] = 'next'
        elif ph == 'next':
            st['step'] += 1
            if st['step'] >= len(plan['steps']):
                st['phase'] = 'final'
                st['stable'] = 0
                for i in list(st['down']):
                    speakers[i].accept_mode = 'accept'
                    if not speakers[i].auto_open:
                        speakers[i].auto_open = True
                        cur = speakers[i].current()
                        if cur is not None and not cur.sent_open:
                            speakers[i].send_open(cur)
                st['down'] = set()
                st['t'] = now
            else:
                step = plan['steps'][st['step']]
                t = now + 0.05
                for op in step['api_ops']:
                    r = op['route']
                    txt = f'peer * {"announce" if op["op"] == "ann" else "withdraw"} ' + RW.route_text(r if op['op'] == 'ann' else {**r, 'v': None}, variants)
                    w.at(t, lambda txt=txt: h.emit(txt.encode() + b'\n'))
                    t += 0.01
                    for nbk, nb in model['neighbors'].items():
                        key = RW.key_of(r['p'], None, False)
                        if op['op'] == 'ann':
                            api_routes[nb['idx']][key] = (LOCAL if r['nh'] == 'self' else r['nh'], variants[r['v']]['med'])
                        else:
                            api_routes[nb['idx']].pop(key, None)
                st['phase'] = 'pre-reload'
                st['t'] = t + 0.5
        elif ph == 'pre-reload':
            if now >= st['t'] and w.quiescent():
                step = plan['steps'][st['step']]
                # session states for this reload
                for key, nb in model['neighbors'].items():
                    i = nb['idx']
                    mode = step['sessions'].get(str(i), 'up')
                    if mode == 'down' and i not in st['down']:
                        st['down'].add(i)
                        probes['sessions_down_at_reload'] += 1
                        speakers[i].accept_mode = 'refuse'
                        s = speakers[i].established()
                        if s:
                            s.reset()
                    elif mode == 'opensent' and i not in st['down']:
                        # down, but not idle: the speaker accepts the TCP connection and withholds its OPEN
                        st['down'].add(i)
                        probes['sessions_down_at_reload'] += 1
                        probes['sessions_held_in_opensent'] = probes.get('sessions_held_in_opensent', 0) + 1
                        speakers[i].auto_open = False
                        speakers[i].accept_mode = 'accept'
                        s = speakers[i].established()
                        if s:
                            s.reset()
                st['phase'] = 'reload'
                st['t'] = now + (1.0 if st['down'] else 0.0) + step['gap']
        elif ph == 'reload':
            if now >= st['t']:
                step = plan['steps'][st['step']]
                new_model = apply_edits(model, step['edits'])
                text = model_text(new_model, variants, step.get('order', 0))
                fsfault = None
                if step['fault'] and not st.get('retry'):
                    text, fsfault = break_text(text, step['fault'])
                    faults[step['fault']['kind']] = faults.get(step['fault']['kind'], 0) + 1
                w.set_config(text)
                w.fs.fault.pop(w.CONFIG_PATH, None)
                if fsfault:
                    w.fs.fault[w.CONFIG_PATH] = fsfault
                st['before'] = snapshot_state()
                st['nreload'] = len(w.reload_log)
                st['new_model'] = new_model
                if any(api_routes[i] for i in range(3)):
                    probes['api_routes_at_reload'] += 1
                for key, nb in model['neighbors'].items():
                    i = nb['idx']
                    if step['sessions'].get(str(i)) == 'die' and i not in st['down']:
                        s = speakers[i].established()
                        if s:
                            probes['sessions_died_during_reload'] += 1
                            w.after(0.002, s.reset)
                if step['via'] == 'api':
                    h.emit(b'daemon reload\n')
                else:
                    w.signal('RELOAD')
                st['phase'] = 'await-reload'
                st['t'] = now + 15.0
        elif ph == 'await-reload':
            if len(w.reload_log) > st['nreload']:
                rec = w.reload_log[-1]
                probes['reloads_run'] += 1
                w.fs.fault.pop(w.CONFIG_PATH, None)
                st['ok'] = rec['result'] is True
                st['phase'] = 'settle'
                st['t'] = now
                st['stable'] = 0
                if st['ok'] and plan['steps'][st['step']]['fault'] is not None and not st.get('retry'):
                    # the damaged file happened to be a loadable configuration (e.g. torn at a block boundary): what it
                    # means is not modelled, so write the intended file and reload once more before judging
                    probes['faulty_file_accepted'] = probes.get('faulty_file_accepted', 0) + 1
                    st['retry'] = True
                    st['api_unknown'] = True
                    st['phase'] = 'reload'
                    # leave time for a neighbor the damaged file may have removed to be fully gone: re-adding a neighbor while
                    # its stopped peer is still inside a connection attempt is a separate, recorded finding (DESIGN.md)
                    st['t'] = now + 8.0
                elif st['ok']:
                    st['retry'] = False
                    probes['reloads_ok'] += 1
                    removed = [nb['idx'] for k, nb in model['neighbors'].items() if k not in st['new_model']['neighbors']]
                    st['removed'] = removed
                    model = st['new_model']
                    for i in removed:
                        api_routes[i] = {}
                else:
                    probes['reloads_failed'] += 1
                    if plan['steps'][st['step']]['fault'] is None or st.get('retry'):
                        violations.append(viol('C17/valid-config-refused', f'reload of a valid configuration failed: {rec.get("error", "")[:300]}'))
            elif now > st['t'] and st.get('retry'):
                # an unmodelled (damaged but loadable) configuration is live and the corrective reload was never executed
                # (exabgp drops a reload requested while an Adj-RIB-Out is pending): nothing further can be judged
                probes['reload_dropped'] += 1
                probes['unjudged_after_accepted_damage'] = probes.get('unjudged_after_accepted_damage', 0) + 1
                w.signal('SHUTDOWN')
                return
            elif now > st['t']:
                probes['reload_dropped'] += 1
                w.fs.fault.pop(w.CONFIG_PATH, None)
                w.set_config(model_text(model, variants))
                st['phase'] = 'next'
        elif ph == 'settle':
            if st['ok']:
                ready = sessions_ok(model) and w.quiescent()
                st['stable'] = st['stable'] + 1 if ready else 0
                if st['stable'] >= 4:
                    check_tables(model, 'successful-reload')
                    if not violations and not st.get('api_unknown'):
                        want_procs = ['h1'] + (['h2'] if model.get('h2') else [])
                        have_procs = sorted(w.reactor.processes._process.keys())
                        if have_procs != want_procs:
                            violations.append(viol('C17/processes-after-successful-reload', f'the new configuration defines the helper processes {want_procs}, running after the reload: {have_procs}'))
                        elif h.generation != 1:
                            violations.append(viol('C17/unchanged-helper-restarted', f'the helper h1, whose section did not change, was started {h.generation} times'))
                    if not violations:
                        for i in st.get('removed', []):
                            if speakers[i].established() is not None:
                                violations.append(viol('C17/removed-neighbor-still-up', f'neighbor {RW.PEER_IPS[i]} was removed from the configuration but its session is still established'))
                    st['phase'] = 'next'
                    if not violations and not st.get('api_unknown'):
                        for op in plan['steps'][st['step']].get('post_ops', []):
                            i = op['nbr']
                            if str(i) not in model['neighbors'] or op['p'] in model['neighbors'][str(i)]['routes']:
                                continue
                            probes['post_reload_api_reannounce'] = probes.get('post_reload_api_reannounce', 0) + 1
                            if i in st['down']:
                                probes['post_reload_api_reannounce_while_down'] = probes.get('post_reload_api_reannounce_while_down', 0) + 1
                            h.emit(f'peer {RW.PEER_IPS[i]} announce {RW.route_text({"p": op["p"], "nh": op["nh"], "v": op["v"]}, variants)}\n'.encode())
                            api_routes[i][RW.key_of(op['p'], None, False)] = (LOCAL if op['nh'] == 'self' else op['nh'], variants[op['v']]['med'])
                            st['phase'] = 'post-wait'
                            st['t'] = now
                elif now > st['t'] + 150.0:
                    violations.append(viol('C17/not-converged-after-reload', f'150 s after a successful reload: sessions_ok={sessions_ok(model)} quiescent={w.quiescent()}'))
            else:
                if now > st['t'] + 3.0:
                    check_failed_reload()
                    st['phase'] = 'canary' if not violations else 'next'
        elif ph == 'post-wait':
            if now > st['t'] + 1.5 and w.quiescent():
                st['phase'] = 'next'
        elif ph == 'canary':
            # the API must still reach the peers
            st['canary'] += 1
            probes['canary_checks'] += 1
            p = f'10.250.{st["canary"]}.0/24'
            st['canary_key'] = RW.key_of(p, None, False)
            st['acks'] = sum(1 for _, ln in h.lines if ln in ('done', 'error'))
            h.emit(f'peer * announce route {p} next-hop 10.0.0.9 med 99\n'.encode())
            for key, nb in model['neighbors'].items():
                api_routes[nb['idx']][st['canary_key']] = ('10.0.0.9', 99)
            st['phase'] = 'canary-wait'
            st['t'] = now
        elif ph == 'canary-wait':
            if now > st['t'] + 4.0:
                acks = [ln for _, ln in h.lines if ln in ('done', 'error')][st['acks'] :]
                if acks[:1] != ['done']:
                    violations.append(viol('C17/api-dead-after-failed-reload', f'after a failed reload `peer * announce route` was answered {acks[:1] or "nothing"}', answer=str(acks[:1])))
                else:
                    for key, nb in model['neighbors'].items():
                        i = nb['idx']
                        s = speakers[i].established()
                        if s is not None and i not in st['down'] and st['canary_key'] not in s.table.routes:
                            violations.append(viol('C17/api-announce-lost-after-failed-reload', f'after a failed reload `peer * announce route` was acknowledged but neighbor {RW.PEER_IPS[i]} never received the route (configuration.neighbors={len(w.reactor.configuration.neighbors)})', neighbors=len(w.reactor.configuration.neighbors)))
                            break
                st['phase'] = 'next'
        elif ph == 'final':
            ready = sessions_ok(model) and w.quiescent()
            st['stable'] = st['stable'] + 1 if ready else 0
            if st['stable'] >= 4:
                check_tables(model, 'end')
                w.signal('SHUTDOWN')
                return
            if now > st['t'] + 200.0:
                probes['no_final_convergence'] = 1
                w.signal('SHUTDOWN')
                return
        w.after(0.5, driver)

    def check_failed_reload() -> None:
        b = st['before']
        a = snapshot_state()
        if a['neighbors'] != b['neighbors']:
            violations.append(viol('C17/failed-reload-changed-neighbors', f'a reload that failed left configuration.neighbors = {len(a["neighbors"])} entries (was {len(b["neighbors"])})', after=len(a['neighbors']), before=len(b['neighbors'])))
            return
        if a['holds'] != b['holds']:
            violations.append(viol('C17/failed-reload-changed-parameters', f'hold times after {a["holds"]} before {b["holds"]}'))
            return
        if a['procs'] != b['procs'] or a['spawned'] != b['spawned']:
            violations.append(viol('C17/failed-reload-changed-processes', f'a reload that failed left the helper processes {a["procs"]} ({a["spawned"]} started so far), before it {b["procs"]} ({b["spawned"]})'))
            return
        died = {nb['idx'] for k, nb in model['neighbors'].items() if plan['steps'][st['step']]['sessions'].get(str(nb['idx'])) == 'die'}
        for i in range(3):
            if i in died or i in st['down']:
                continue
            if b['sess'][i] is not None and a['sess'][i] != b['sess'][i]:
                violations.append(viol('C17/failed-reload-reset-session', f'neighbor {RW.PEER_IPS[i]}: the established session was replaced after a failed reload'))
                return
            if b['rep'][i] is not None and a['rep'][i] != b['rep'][i]:
                d = RW.diff_tables(a['rep'][i], b['rep'][i], 'after', 'before')
                violations.append(viol('C17/failed-reload-changed-adj-rib-out', f'neighbor {RW.PEER_IPS[i]}: ' + '; '.join(d)))
                return
        # nothing but keepalives on the wire since the reload
        for c, t, mt, body in wire_messages(w):
            if t > b['mono'] and mt == R.UPDATE:
                conn = next((x for x in w.net.conns if x.cid == c), None)
                idx = next((i for i in range(3) if conn is not None and conn.actor is speakers[i]), None)
                if idx in died or idx in st['down']:
                    continue
                if conn is not None and getattr(conn, 'session', None) is not None and conn.session.index != b['sess'].get(idx):
                    continue
                violations.append(viol('C17/failed-reload-emitted-update', f'an UPDATE ({len(body)} bytes) was sent to {RW.PEER_IPS[idx] if idx is not None else c} at t={t:.2f} as a consequence of a reload that failed at t={b["mono"]:.2f}'))
                return

    def knock() -> None:
        # the peer of a passive neighbor connects in, and keeps trying like a real one - unless this step wants the session down
        for key, nb in model['neighbors'].items():
            i = nb['idx']
            if nb.get('passive') and i not in st['down'] and speakers[i].current() is None and speakers[i].accept_mode == 'accept':
                speakers[i].connect_in(LOCAL, 1790)
        w.after(2.0, knock)

    w.at(0.5, knock)
    w.at(1.0, driver)
    w.run(until=2500.0)
    nontrivial = probes['reloads_failed'] + probes['sessions_down_at_reload'] + probes['sessions_died_during_reload'] + probes['api_routes_at_reload'] > 0
    return result(w, violations[:1], faults=faults, probes=probes, nontrivial=nontrivial, sample={'steps': [(s['fault']['kind'] if s['fault'] else 'ok', s['via']) for s in plan['steps']]})


def shrink_candidates(plan: dict):
    from exasim.runner import generic_candidates

    yield from generic_candidates(plan, ['steps'])
    for si, s in enumerate(plan['steps']):
        for key in ('edits', 'api_ops'):
            for c in generic_candidates(s, [key]):
                p = jclone(plan)
                p['steps'][si] = c
                yield p
        if any(v != 'up' for v in s['sessions'].values()):
            p = jclone(plan)
            p['steps'][si]['sessions'] = {k: 'up' for k in s['sessions']}
            yield p
        if s['via'] != 'signal':
            p = jclone(plan)
            p['steps'][si]['via'] = 'signal'
            yield p
    if len(plan['model']['neighbors']) > 1:
        p = jclone(plan)
        last = sorted(p['model']['neighbors'])[-1]
        del p['model']['neighbors'][last]
        yield p
    k = plan['knobs']
    if k.get('tick') != 0.002 or k.get('drift') or k.get('wall_step'):
        p = jclone(plan)
        p['knobs'].update({'tick': 0.002, 'drift': 0.0, 'wall_step': 0.0})
        yield p
