"""C03 - no peer input can crash or wedge the speaker."""

from __future__ import annotations

import struct

from scenarios.common import FAM_TEXT, R, Speaker, config_text, jclone, knobs, make_world, result, speaker_caps, viol

ID = 'C03'
LEVEL = 'exploration'
LEVEL_TEXT = (
    'seeded hostile-input exploration through the running speaker: 1-2 scripted peers of varied negotiated kinds (2-/4-byte AS, ADD-PATH, '
    '4096/65535, all 24 configurable families incl. FlowSpec, EVPN, VPLS, BGP-LS, MUP, MVPN, SR-policy) deliver, in AWAIT-OPEN, OPENCONFIRM '
    'or ESTABLISHED and under varied segmentation, message bodies of every type built by generators of increasing structure (random bytes; '
    'UPDATE skeletons with random lengths; every known attribute code with random / truncated / nested-TLV values; MP_REACH/MP_UNREACH per '
    'family with random and near-valid NLRI; hundreds to thousands of attributes; OPEN with random parameters and capabilities; '
    'NOTIFICATION / ROUTE-REFRESH / OPERATIONAL payloads). Oracles: a pass-through recorder on Message.unpack sees every exception that is '
    'not a Notify (the catch-all that launders them into NOTIFICATION 1/0 does not hide them) and counts interpreter calls per decoded '
    'byte; on the wire the outcome is "session continues" or one NOTIFICATION with a defined (code, subcode); afterwards the speaker still '
    'reports a benign UPDATE or answers an API command (not wedged); bodies valid by construction are never refused.'
    ' Session kinds include `local-as auto` and peers writing their OPEN in the RFC 9072 extended format; a session that only sent its well-formed OPEN and is answered with a NOTIFICATION counts as a refused valid message.'
    ' ADD-PATH churn (announces and withdraws over two prefixes and three path identifiers, withdraws of paths never announced) with and without PATHS-LIMIT.'
)
LEVEL_NOTE = 'trusts: the work measure (Python-level calls during Message.unpack, bound 4000 + 160 per body byte) as a proxy for time; the table of defined NOTIFICATION codes'
DESIGN_REF = 'DESIGN.md section 5, C03'
RULE = (
    'plan = 1-2 session kinds x (state, generator, seed, size) scripts of up to 12 bodies each; non-trivial = at least one body reached '
    'Message.unpack in the intended state; distinct = digests of (kinds, bodies); per-generator, per-type and per-outcome counts in the probes'
)
ASSUMPTIONS = [
    'NOTIFICATION subcode 0 (Unspecific) counts as defined for every code (RFC 4271 4.5)',
    'a body is "valid by construction" only for the generators that build it from the reference encoders (many unknown optional attributes, maximum-size UPDATE, empty and duplicate-free attribute sets)',
]

LOCAL = '10.0.0.1'
ALL_FAMS = [
    (1, 1), (1, 2), (1, 4), (1, 128), (1, 5), (1, 133), (1, 134), (1, 85), (1, 73), (2, 1), (2, 4), (2, 128), (2, 5), (2, 85), (2, 73), (2, 133), (2, 134),
    (25, 65), (25, 70), (16388, 71), (16388, 72),
]  # fmt: skip
FAM_NAMES = dict(FAM_TEXT)
FAM_NAMES.update({(1, 5): 'ipv4 mcast-vpn', (2, 5): 'ipv6 mcast-vpn', (1, 85): 'ipv4 mup', (2, 85): 'ipv6 mup', (1, 73): 'ipv4 sr-policy', (2, 73): 'ipv6 sr-policy',
                  (25, 70): 'l2vpn evpn', (16388, 71): 'bgp-ls bgp-ls', (16388, 72): 'bgp-ls bgp-ls-vpn'})  # fmt: skip
FAM_TEXT.update(FAM_NAMES)
KNOWN_ATTRS = [1, 2, 3, 4, 5, 6, 7, 8, 9, 10, 14, 15, 16, 17, 18, 22, 23, 25, 26, 29, 32, 40]
DEFINED = {1: {0, 1, 2, 3}, 2: {0, 1, 2, 3, 4, 5, 6, 7, 8, 11}, 3: set(range(0, 12)), 4: {0}, 5: {0, 1, 2, 3}, 6: set(range(0, 12)), 7: {0, 1}}
GENERATORS = ['random', 'update-skeleton', 'attr-fuzz', 'mp-fuzz', 'many-attrs', 'tlv-nest', 'open-fuzz', 'misc-type', 'valid-unusual', 'mutate-valid', 'corpus', 'corpus-mutate', 'corpus-mutate', 'corpus-attr', 'corpus-attr', 'corpus-splice']
WORK_BASE, WORK_PER_BYTE = 4000, 160


_CORPUS: list = []


def corpus() -> list:
    if not _CORPUS:
        import json
        import os

        with open(os.path.join(os.path.dirname(os.path.dirname(os.path.abspath(__file__))), 'corpus', 'bodies.json')) as f:
            _CORPUS.extend(json.load(f))
    return _CORPUS


def counts(tier: str):
    return (1500, 75.0) if tier == 'quick' else (40000, 900.0)


def gen_kind(rng, idx: int) -> dict:
    asn4 = rng.chance(0.6)
    fams = [f for f in ALL_FAMS if rng.chance(0.6)] or [(1, 1)]
    if (1, 1) not in fams:
        fams.insert(0, (1, 1))
    ap = [f for f in fams if rng.chance(0.25) and f[1] in (1, 4, 128) and f[0] in (1, 2)]
    return {'idx': idx, 'peer_ip': f'10.0.0.{2 + idx}', 'peer_as': rng.choice([65001, 65002]) if not asn4 else rng.choice([65001, 65002, 4200000002]), 'asn4': asn4, 'families': fams,
            'addpath': ap, 'extmsg': rng.chance(0.3),
            # the other walk through session establishment (exabgp answers the peer's OPEN), and a peer that writes its OPEN in the
            # RFC 9072 extended format although it would fit the classic one (allowed at any time)
            'local_auto': rng.chance(0.12), 'open_ext': rng.chance(0.2), 'ap_extra': rng.chance(0.4)}  # fmt: skip


def generate(rng, tier: str, index: int) -> dict:
    kinds = [gen_kind(rng, i) for i in range(rng.choice([1, 1, 2]))]
    for k in kinds:
        if rng.chance(0.5):
            # the kind of session the seed corpus was recorded on: every family, 4-byte AS, no ADD-PATH
            k.update({'families': [list(f) for f in ALL_FAMS], 'asn4': True, 'addpath': [], 'corpus_friendly': True})
    scripts = []
    for k in kinds:
        state = rng.choice(['established', 'established', 'established', 'openconfirm', 'await-open'])
        n = rng.randint(1, 12) if state == 'established' else 1
        items = []
        for _ in range(n):
            g = rng.choice(GENERATORS)
            adv = False
            if state == 'await-open' and rng.chance(0.6):
                g = 'open-fuzz'
            elif state != 'established' and rng.chance(0.35):
                g, adv = 'misc-type', True  # a well-formed OPERATIONAL advisory where an OPEN / a KEEPALIVE is expected
            items.append({'gen': g, 'adv': adv, 'seed': rng.randint(1, 1 << 40), 'size': rng.choice([0, 1, 3, 16, 64, 200, 1000, 4000, 4077, 30000, 65000]),
                          'slow': rng.choice([None, None, None, None, [rng.randint(1, 18), rng.choice([0.12, 0.2, 0.35])], [19 + rng.randint(1, 40), rng.choice([0.12, 0.25])]])})
        if state == 'established' and k['extmsg'] and rng.chance(0.5):
            # a session that negotiated 65535-byte messages is sent one: valid by construction, far above 4096
            items.insert(rng.randint(0, len(items)), {'gen': 'valid-unusual', 'style': 'max-size', 'seed': rng.randint(1, 1 << 40), 'size': 65000, 'slow': None})
        scripts.append({'state': state, 'items': items})
    plan = {'micro_seed': rng.randint(1, 1 << 48), 'knobs': knobs(rng), 'kinds': kinds, 'scripts': scripts, 'gap': rng.choice([0.02, 0.1, 0.3]), 'split_p': rng.choice([0.0, 0.3])}
    # ADD-PATH churn (a side stream: the plans generated so far keep their draws): valid announces and withdraws over two prefixes and
    # three path identifiers - a withdraw for a path never announced, a withdraw repeated, the last path of a prefix going away - on
    # a session with ADD-PATH receive, half of the time with a PATHS-LIMIT that makes exabgp count the paths it is sent
    f = rng.fork('ap-churn')
    for k, sc in zip(kinds, scripts):
        if sc['state'] != 'established' or k.get('corpus_friendly'):
            continue
        if (1, 1) not in [tuple(x) for x in k['addpath']] and f.chance(0.12):
            k['addpath'] = [list(x) for x in k['addpath']] + [[1, 1]]
        if (1, 1) in [tuple(x) for x in k['addpath']] and f.chance(0.6):
            if f.chance(0.6):
                k['paths_limit'] = f.choice([1, 2, 5])
            churn = [{'gen': 'valid-unusual', 'style': 'ap-churn', 'op': f.choice(['ann', 'ann', 'wd']), 'pfx': f.randint(0, 1), 'pid': f.randint(1, 3), 'seed': f.randint(1, 1 << 40), 'size': 0, 'slow': None, 'adv': False}
                     for _ in range(f.randint(2, 8))]  # fmt: skip
            at = f.randint(0, len(sc['items']))
            sc['items'][at:at] = churn
    return plan


# --------------------------------------------------------------------------- hostile body builders


def rb(rng, n: int) -> bytes:
    return bytes(rng.randint(0, 255) for _ in range(n))


def tlvs(rng, depth: int, budget: int, tbytes: int = 2, lbytes: int = 2) -> bytes:
    out = b''
    while budget > tbytes + lbytes and rng.chance(0.85):
        t = rng.choice([1, 2, 3, 256, 257, 258, 263, 264, 265, 512, 1024, 1026, 1028, 1030, 1034, 1035, 1038, 1099, 1152, 1153, 1155, 1158, 1170, 1171, 1172, 1173, rng.randint(0, 65535)])
        room = budget - tbytes - lbytes
        if depth > 0 and rng.chance(0.5):
            v = tlvs(rng, depth - 1, min(room, rng.choice([8, 32, 200, room])), tbytes, lbytes)
        else:
            v = rb(rng, min(room, rng.choice([0, 1, 2, 4, 5, 8, 16, 17, 33, 64])))
        ln = len(v) if rng.chance(0.85) else rng.choice([0, len(v) + 1, len(v) + 200, 65535 if lbytes == 2 else 255, max(0, len(v) - 1)])
        ln &= (1 << (8 * lbytes)) - 1
        out += (t & ((1 << (8 * tbytes)) - 1)).to_bytes(tbytes, 'big') + ln.to_bytes(lbytes, 'big') + v
        budget -= tbytes + lbytes + len(v)
    return out


def attr_value(rng, code: int, kind: dict, size: int) -> bytes:
    """a value for a known attribute: sometimes valid, sometimes truncated / oversized / random"""
    mode = rng.choice(['valid', 'valid', 'random', 'truncate', 'extend', 'empty'])
    asn4 = kind['asn4']
    v = b''
    if code == 1:
        v = bytes([rng.choice([0, 1, 2, 3, 255])])
    elif code in (2, 17):
        segs = []
        for _ in range(rng.choice([0, 1, 1, 2, 5])):
            segs.append((rng.choice([1, 2, 2, 2, 3, 4, 0, 5, 255]), [rng.choice([0, 1, 23456, 65535, 65536, 4294967295]) & (0xFFFFFFFF if (asn4 or code == 17) else 0xFFFF) for _ in range(rng.choice([0, 1, 2, 10, 255]))]))
        v = b''.join(bytes([t, len(a) & 255]) + b''.join(x.to_bytes(4 if (asn4 or code == 17) else 2, 'big') for x in a) for t, a in segs)
    elif code == 3:
        v = rb(rng, 4)
    elif code in (4, 5):
        v = rb(rng, 4)
    elif code == 6:
        v = b''
    elif code in (7, 18):
        v = rb(rng, 8 if (asn4 or code == 18) else 6)
    elif code == 8:
        v = rb(rng, 4 * rng.choice([0, 1, 2, 60]))
    elif code == 9:
        v = rb(rng, 4)
    elif code == 10:
        v = rb(rng, 4 * rng.choice([0, 1, 3]))
    elif code == 16:
        v = b''.join(bytes([rng.choice([0, 1, 2, 3, 6, 8, 0x40, 0x43, 0x80, 0x0C, 0x0B, 0x06, rng.randint(0, 255)]), rng.randint(0, 255)]) + rb(rng, 6) for _ in range(rng.choice([0, 1, 2, 10])))
    elif code == 32:
        v = rb(rng, 12 * rng.choice([0, 1, 2, 10]))
    elif code == 22:  # PMSI tunnel
        v = bytes([rng.randint(0, 255), rng.choice([0, 1, 2, 3, 4, 5, 6, 7, 8, 255])]) + rb(rng, 3) + rb(rng, rng.choice([0, 4, 8, 12, 16, 20]))
    elif code == 23:  # tunnel encapsulation
        v = tlvs(rng, 2, max(8, min(size, 300)), 2, 2)
    elif code == 25:  # IPv6 address specific extended community
        v = rb(rng, 20 * rng.choice([0, 1, 2]))
    elif code == 26:  # AIGP
        v = tlvs(rng, 0, 40, 1, 2) if rng.chance(0.5) else bytes([1, 0, 11]) + rb(rng, 8)
    elif code == 29:  # BGP-LS
        v = tlvs(rng, 3, max(8, min(size, 2000)), 2, 2)
    elif code == 40:  # prefix SID
        v = tlvs(rng, 2, max(8, min(size, 400)), 1, 2)
    elif code in (14, 15):
        v = mp_value(rng, code, kind, size)
    if mode == 'random':
        v = rb(rng, rng.choice([0, 1, 2, 3, 4, 5, 7, 8, 9, 12, 13, 16, 21, min(size, 400)]))
    elif mode == 'truncate' and v:
        v = v[: rng.randint(0, len(v) - 1)]
    elif mode == 'extend':
        v = v + rb(rng, rng.choice([1, 2, 3, 4, 8]))
    elif mode == 'empty':
        v = b''
    return v


def nlri_bytes(rng, fam, kind: dict, budget: int) -> bytes:
    afi, safi = fam
    out = b''
    ap = tuple(fam) in {tuple(f) for f in kind['addpath']}
    for _ in range(rng.choice([0, 1, 1, 2, 5, 40])):
        if len(out) > budget:
            break
        if ap and rng.chance(0.9):
            out += rb(rng, 4)
        if safi in (1, 2):
            bits = rng.choice([0, 8, 24, 32, 33, 64, 128, 129, 255])
            out += bytes([bits]) + rb(rng, (bits + 7) // 8 if rng.chance(0.85) else rng.randint(0, 20))
        elif safi in (4, 128):
            nl = rng.choice([1, 1, 2, 3, 10])
            labels = b''.join((rng.choice([0, 0x800000, 0x000001, 0x000011, rng.randint(0, 0xFFFFFF)]) | (1 if (i == nl - 1 and rng.chance(0.8)) else 0)).to_bytes(3, 'big') for i in range(nl))
            rd = rb(rng, 8) if safi == 128 else b''
            pb = rng.choice([0, 8, 24, 32, 128])
            bits = rng.choice([len(labels) * 8 + len(rd) * 8 + pb, rng.randint(0, 255)])
            out += bytes([bits & 255]) + labels + rd + rb(rng, (pb + 7) // 8)
        elif safi in (133, 134):
            comps = b''
            if safi == 134:
                comps += rb(rng, 8)
            for _ in range(rng.choice([0, 1, 2, 5, 13])):
                t = rng.choice([1, 2, 3, 4, 5, 6, 7, 8, 9, 10, 11, 12, 13, 0, 14, 255])
                if t in (1, 2):
                    bits = rng.choice([0, 8, 24, 32, 64, 128, 200])
                    comps += bytes([t, bits]) + (bytes([rng.choice([0, 8, 64, 200])]) if afi == 2 else b'') + rb(rng, (bits + 7) // 8 if rng.chance(0.8) else rng.randint(0, 5))
                else:
                    for j in range(rng.choice([1, 2, 5])):
                        op = rng.randint(0, 255)
                        if rng.chance(0.7):
                            op = (op & 0x7F) | (0x80 if j == 0 else 0)
                        comps += (bytes([t]) if j == 0 else b'') + bytes([op]) + rb(rng, 1 << ((op >> 4) & 3) if rng.chance(0.85) else rng.randint(0, 3))
            ln = len(comps) if rng.chance(0.8) else rng.choice([0, 239, 240, 255, len(comps) + 1])
            out += (bytes([ln]) if ln < 240 else bytes([0xF0 | (ln >> 8) & 0x0F, ln & 0xFF])) + comps
        elif safi == 65:
            ln = rng.choice([17, 17, 0, 16, 18, 65535])
            out += ln.to_bytes(2, 'big') + rb(rng, rng.choice([17, 17, 5, 30]))
        elif safi == 70:
            t = rng.choice([1, 2, 3, 4, 5, 0, 6, 11, 255])
            body = rb(rng, rng.choice([0, 8, 23, 25, 33, 34, 35, 50, 17, 12, 36, 60]))
            out += bytes([t, len(body) if rng.chance(0.85) else rng.randint(0, 255)]) + body
        elif safi in (71, 72):
            t = rng.choice([1, 2, 3, 4, 5, 6, 0, 255])
            body = (rb(rng, 8) if safi == 72 else b'') + bytes([rng.randint(0, 7)]) + rb(rng, 8) + tlvs(rng, 2, rng.choice([8, 40, 200]), 2, 2)
            ln = len(body) if rng.chance(0.85) else rng.choice([0, 1, len(body) + 7, 65535])
            out += t.to_bytes(2, 'big') + ln.to_bytes(2, 'big') + body
        elif safi == 85:
            body = rb(rng, rng.choice([0, 8, 12, 20, 30, 45]))
            out += bytes([rng.choice([1, 2, 0, 255])]) + rng.choice([1, 2, 3, 4, 0, 65535]).to_bytes(2, 'big') + bytes([len(body) if rng.chance(0.85) else rng.randint(0, 255)]) + body
        elif safi == 5:
            t = rng.choice([1, 2, 3, 4, 5, 6, 7, 0, 8, 255])
            body = rb(rng, rng.choice([0, 8, 12, 16, 22, 24, 30, 46]))
            out += bytes([t, len(body) if rng.chance(0.85) else rng.randint(0, 255)]) + body
        elif safi == 73:
            bits = rng.choice([96, 192, 0, 95, 255])
            out += bytes([bits]) + rb(rng, rng.choice([12, 24, 0, 5]))
        else:
            out += rb(rng, rng.randint(0, 30))
    return out[:budget] if rng.chance(0.9) else out


def mp_value(rng, code: int, kind: dict, size: int) -> bytes:
    fam = tuple(rng.choice(kind['families'])) if rng.chance(0.85) else (rng.choice([0, 1, 2, 3, 25, 16388, 65535]), rng.choice([0, 1, 3, 4, 66, 128, 133, 255]))
    afi, safi = fam
    if code == 15:
        return afi.to_bytes(2, 'big') + bytes([safi]) + nlri_bytes(rng, fam, kind, max(0, min(size, 3000)))
    nhl = rng.choice([4, 16, 32, 12, 24, 48, 0, 1, 5, 255])
    nh = rb(rng, nhl if rng.chance(0.9) else rng.randint(0, 40))
    return afi.to_bytes(2, 'big') + bytes([safi, nhl]) + nh + bytes([rng.choice([0, 0, 0, 1, 255])]) + nlri_bytes(rng, fam, kind, max(0, min(size, 3000)))


def mk_attr(rng, code: int, value: bytes) -> bytes:
    base = R.ATTR_FLAGS.get(code, 0xC0)
    flags = base if rng.chance(0.8) else rng.choice([0x00, 0x40, 0x80, 0xC0, 0xE0, 0xFF, 0x10 | base, 0x0F | base])
    ext = len(value) > 255 or rng.chance(0.1)
    declared = len(value) if rng.chance(0.9) else rng.choice([0, len(value) + 1, len(value) + 100, 65535, max(0, len(value) - 1)])
    if ext:
        return bytes([flags | 0x10, code]) + (declared & 0xFFFF).to_bytes(2, 'big') + value
    return bytes([flags & ~0x10 & 0xFF, code, declared & 0xFF]) + value


def v4nlri(kind: dict, prefix: str = '192.0.2.0/24') -> bytes:
    ap = (1, 1) in {tuple(f) for f in kind['addpath']}
    return R.enc_prefix(prefix, pathid=7 if ap else None)


def base_attrs(kind: dict) -> bytes:
    path = [(2, [kind['peer_as']])] if kind['peer_as'] != 65001 else []
    lp = R.attribute(R.A_LOCAL_PREF, (100).to_bytes(4, 'big')) if kind['peer_as'] == 65001 else b''
    return R.attribute(R.A_ORIGIN, b'\x00') + R.attribute(R.A_AS_PATH, R.enc_as_path(path, kind['asn4'])) + R.attribute(R.A_NEXT_HOP, bytes([10, 0, 0, 9])) + lp


def mutate(rng, body: bytearray, inner: bool = False) -> bytes:
    body = bytearray(body)
    for _ in range(rng.choice([1, 1, 1, 2, 3, 6])):
        if not body:
            body += rb(rng, rng.choice([1, 4]))
            continue
        op = rng.choice(['flip', 'flip', 'set', 'del', 'ins', 'trunc', 'dup', 'len+', 'len-', 'zero', 'ff'])
        pos = rng.randint(0, len(body) - 1)
        if inner and rng.chance(0.5):
            pos = min(pos, rng.randint(0, 40))  # headers and first TLVs matter most
        if op == 'flip':
            body[pos] ^= 1 << rng.randint(0, 7)
        elif op == 'set':
            body[pos] = rng.choice([0, 1, 2, 127, 128, 255, rng.randint(0, 255)])
        elif op == 'del':
            del body[pos : pos + rng.choice([1, 2, 3, 4, 8])]
        elif op == 'ins':
            body[pos:pos] = rb(rng, rng.choice([1, 2, 3, 4, 8]))
        elif op == 'trunc':
            del body[pos:]
        elif op == 'dup':
            n = rng.choice([1, 2, 4, 8, 16])
            body[pos:pos] = body[pos : pos + n]
        elif op == 'len+':
            body[pos] = (body[pos] + rng.choice([1, 2, 4, 16])) & 255
        elif op == 'len-':
            body[pos] = (body[pos] - rng.choice([1, 2, 4, 16])) & 255
        elif op == 'zero':
            n = rng.choice([1, 2, 4, 8])
            body[pos : pos + n] = bytes(len(body[pos : pos + n]))
        else:
            n = rng.choice([1, 2, 4])
            body[pos : pos + n] = b'\xff' * len(body[pos : pos + n])
    return bytes(body)


def build(item: dict, kind: dict) -> tuple[int, bytes, bool]:
    """-> (message type, body, valid by construction)"""
    from exasim.choice import Rng

    rng = Rng(item['seed'])
    mx = (65535 if kind['extmsg'] else 4096) - 19
    size = min(item['size'], mx)
    g = item['gen']
    if g == 'random':
        t = rng.choice([1, 2, 2, 2, 3, 4, 5, 6, 0, 7, 255])
        return t, rb(rng, size), False
    if g == 'update-skeleton':
        wl = rng.choice([0, 0, 1, 4, size, 65535, rng.randint(0, 65535)])
        al = rng.choice([0, 0, 1, 3, size, 65535, rng.randint(0, 65535)])
        body = wl.to_bytes(2, 'big') + rb(rng, min(wl, size) if rng.chance(0.7) else rng.randint(0, 8)) + al.to_bytes(2, 'big') + rb(rng, min(al, size) if rng.chance(0.7) else rng.randint(0, 8)) + rb(rng, rng.choice([0, 0, 1, 4, 5]))
        return 2, body[:mx], False
    if g == 'attr-fuzz':
        attrs = b''
        if rng.chance(0.7):
            attrs += base_attrs(kind)
        for _ in range(rng.choice([1, 1, 2, 3, 6])):
            code = rng.choice(KNOWN_ATTRS)
            attrs += mk_attr(rng, code, attr_value(rng, code, kind, size))
        nlri = v4nlri(kind) if rng.chance(0.7) else b''
        if len(attrs) + len(nlri) + 4 > mx:
            attrs = attrs[: mx - 4 - len(nlri)]
        return 2, R.build_update(attrs=attrs, nlri=nlri)[19:], False
    if g == 'mp-fuzz':
        code = rng.choice([14, 14, 15])
        attrs = (base_attrs(kind) if rng.chance(0.8) else b'') + mk_attr(rng, code, mp_value(rng, code, kind, size))
        if rng.chance(0.2):
            attrs += mk_attr(rng, 15, mp_value(rng, 15, kind, size))
        attrs = attrs[: mx - 4]
        return 2, R.build_update(attrs=attrs)[19:], False
    if g == 'many-attrs':
        n = rng.choice([200, 300, 800, 1300, 5000, 20000])
        style = rng.choice(['same-unknown', 'cycle-unknown', 'cycle-all', 'dup-known'])
        attrs = base_attrs(kind) if rng.chance(0.8) else b''
        for i in range(n):
            if style == 'same-unknown':
                code = 200
            elif style == 'cycle-unknown':
                code = 128 + (i % 100)
            elif style == 'cycle-all':
                code = i % 256
            else:
                code = rng.choice([8, 16, 32, 9, 10])
            a = bytes([0x80 if code >= 41 else R.ATTR_FLAGS.get(code, 0x80), code, 0])
            if len(attrs) + len(a) + 4 + 8 > mx:
                break
            attrs += a
        return 2, R.build_update(attrs=attrs, nlri=v4nlri(kind))[19:], False
    if g == 'tlv-nest':
        code = rng.choice([29, 29, 40, 23, 26])
        if code == 29:
            v = tlvs(rng, rng.choice([1, 3, 6, 30]), max(16, size), 2, 2)
        elif code == 23:
            v = tlvs(rng, rng.choice([1, 3, 6]), max(16, size), 2, 2)
        else:
            v = tlvs(rng, rng.choice([1, 3, 6]), max(16, size), 1, 2)
        attrs = base_attrs(kind) + R.attribute(code, v[: mx - 60], flags=0x80 if code in (29, 26) else 0xC0)
        if code == 29 and (16388, 71) in [tuple(f) for f in kind['families']] and rng.chance(0.7):
            attrs = R.attribute(R.A_ORIGIN, b'\x00') + R.attribute(R.A_AS_PATH, b'') + R.attribute(code, v[: mx - 200], flags=0x80) + mk_attr(rng, 14, (16388).to_bytes(2, 'big') + bytes([71, 4, 10, 0, 0, 9, 0]) + nlri_bytes(rng, (16388, 71), kind, 120))
        return 2, R.build_update(attrs=attrs[: mx - 8], nlri=v4nlri(kind) if code != 29 else b'')[19:], False
    if g == 'open-fuzz':
        caps = b''
        for _ in range(rng.choice([0, 1, 3, 8, 40])):
            code = rng.choice([1, 2, 5, 6, 64, 65, 66, 67, 69, 70, 71, 73, 9, 8, 128, 131, rng.randint(0, 255)])
            v = rb(rng, rng.choice([0, 1, 2, 4, 6, 8, 12, 40, 255]))
            caps += bytes([code, len(v) if rng.chance(0.85) else rng.randint(0, 255)]) + v
        style = rng.choice(['caps', 'caps', 'extended', 'raw', 'badlen'])
        if style == 'caps':
            params = b''.join(bytes([2, min(255, len(c))]) + c[:255] for c in [caps[i : i + 200] for i in range(0, len(caps), 200)] or [b''])
            opt = bytes([len(params) & 255]) + params
        elif style == 'extended':
            params = bytes([2]) + (len(caps) if rng.chance(0.8) else rng.randint(0, 65535)).to_bytes(2, 'big') + caps
            opt = bytes([255, 255]) + (len(params) if rng.chance(0.8) else rng.randint(0, 65535)).to_bytes(2, 'big') + params
        elif style == 'raw':
            opt = bytes([rng.randint(0, 255)]) + rb(rng, rng.choice([0, 1, 5, 255]))
        else:
            opt = bytes([rng.choice([0, 1, 200, 255])]) + caps
        asn = kind['peer_as'] if kind['peer_as'] <= 65535 else 23456
        hdr = bytes([4 if rng.chance(0.9) else rng.randint(0, 255)]) + (asn if rng.chance(0.8) else rng.randint(0, 65535)).to_bytes(2, 'big') + rng.choice([0, 3, 90, 180, 65535, 1, 2]).to_bytes(2, 'big') + (bytes([10, 0, 0, 2 + kind['idx']]) if rng.chance(0.8) else rb(rng, 4))
        return 1, (hdr + opt)[:mx], False
    if g == 'misc-type':
        t = rng.choice([3, 3, 5, 5, 6, 4])
        if item.get('adv'):
            t = 6
        if t == 3:
            code, sub = rng.choice([(6, 2), (6, 4), (6, 2), (1, 1), (0, 0), (255, 255), (6, 9)])
            data = rng.choice([b'', bytes([rng.randint(0, 255)]) + rb(rng, rng.choice([0, 5, 128, 255])), bytes([5]) + b'\xff\xfe\xc3(\n', rb(rng, size)])
            return 3, (bytes([code, sub]) + data)[:mx], False
        if t == 5:
            return 5, rng.choice([b'', rb(rng, 3), rb(rng, 4), bytes([0, 1, rng.choice([0, 1, 2, 255]), 1]), rb(rng, 5), bytes([0, 1, 0, 1]) + rb(rng, rng.choice([1, 7, 30, size]))])[:mx], False
        if t == 6 and (item.get('adv') or rng.chance(0.4)):
            # a well-formed advisory (ADM / ASM) whose text is not ASCII
            text = rng.choice(['caf\u00e9 ferm\u00e9', '\u8def\u7531\u5668', 'plain', 'x\u00a0y']).encode('utf-8') + (bytes([0xFF, 0xFE]) if rng.chance(0.3) else b'')
            payload = bytes([0, 1, 1]) + text
            return 6, rng.choice([1, 2]).to_bytes(2, 'big') + len(payload).to_bytes(2, 'big') + payload, False
        if t == 6:
            return 6, (rng.choice([1, 2, 3, 4, 5, 6, 7, 8, 65535, 0]).to_bytes(2, 'big') + rng.choice([0, 2, 4, 9, 65535]).to_bytes(2, 'big') + rb(rng, rng.choice([0, 2, 4, 9, 40, size])))[:mx], False
        return 4, rb(rng, rng.choice([0, 1, 5])), False
    if g == 'valid-unusual':
        style = rng.choice(['many-unknown', 'max-size', 'empty-values', 'wd-only-max', 'long-path', 'long-path', 'attr-subset', 'attr-subset'])
        style = item.get('style') or style
        if style == 'ap-churn':
            nl = R.enc_prefix(['192.0.2.0/24', '198.51.100.128/25'][item['pfx']], pathid=item['pid'])
            if item['op'] == 'ann':
                return 2, R.build_update(attrs=base_attrs(kind), nlri=nl)[19:], True
            return 2, R.build_update(withdrawn=nl)[19:], True
        if style == 'attr-subset':
            # a well-formed UPDATE holding any subset of well-formed optional attributes in any order: each is legal alone and in
            # every combination (RFC 6793 OLD-speaker leftovers included on a 2-byte session: AS4_PATH without AS4_AGGREGATOR, ...)
            asn4 = kind['asn4']
            w = 4 if asn4 else 2
            agg_as = rng.choice([65010, 23456] if not asn4 else [65010, 4200000009])
            pool = [
                R.attribute(R.A_MED, (77).to_bytes(4, 'big')),
                R.attribute(R.A_ATOMIC, b''),
                R.attribute(R.A_AGGREGATOR, agg_as.to_bytes(w, 'big') + bytes([10, 0, 0, 7])),
                R.attribute(R.A_COMMUNITY, b''.join(a.to_bytes(2, 'big') + b.to_bytes(2, 'big') for a, b in [(65000, 1), (65535, 65281)][: rng.randint(1, 2)])),
                R.attribute(R.A_EXT_COMMUNITY, bytes.fromhex('0002fde800000001')),
                R.attribute(R.A_LARGE_COMMUNITY, (1).to_bytes(4, 'big') + (2).to_bytes(4, 'big') + (3).to_bytes(4, 'big')),
                R.attribute(R.A_AIGP, b'\x01\x00\x0b' + (1000).to_bytes(8, 'big')),
            ]
            if kind['peer_as'] == 65001:
                pool += [R.attribute(R.A_ORIGINATOR, bytes([1, 2, 3, 4])), R.attribute(R.A_CLUSTER, bytes([1, 1, 1, 1, 2, 2, 2, 2]))]
            path = [kind['peer_as']] if kind['peer_as'] != 65001 else []
            if not asn4:
                pool += [R.attribute(R.A_AS4_PATH, R.enc_as_path([(2, [4200000001, 65010])], True)), R.attribute(R.A_AS4_AGGREGATOR, (4200000009).to_bytes(4, 'big') + bytes([10, 0, 0, 7]))]
                path = path + [23456, 65010]
            lp = [R.attribute(R.A_LOCAL_PREF, (100).to_bytes(4, 'big'))] if kind['peer_as'] == 65001 else []
            chosen = [a for a in pool if rng.chance(0.5)] + lp + [R.attribute(R.A_ORIGIN, b'\x00'), R.attribute(R.A_AS_PATH, R.enc_as_path([(2, path)] if path else [], asn4)), R.attribute(R.A_NEXT_HOP, bytes([10, 0, 0, 9]))]
            rng.shuffle(chosen)
            return 2, R.build_update(attrs=b''.join(chosen), nlri=v4nlri(kind))[19:], True
        if style == 'long-path':
            # AS paths whose (merged) sequence has 254, 255, 256 or 510 AS numbers
            total = rng.choice([254, 255, 255, 256, 510, 511])
            first = [kind['peer_as']] if kind['peer_as'] != 65001 else []
            lp = R.attribute(R.A_LOCAL_PREF, (100).to_bytes(4, 'big')) if kind['peer_as'] == 65001 else b''
            if kind['asn4'] or rng.chance(0.3):
                seq = first + [64512 + (i % 1000) for i in range(total - len(first))]
                path = R.attribute(R.A_AS_PATH, R.enc_as_path([(2, seq)], kind['asn4']))
            else:
                # a 2-byte session: AS_PATH with AS_TRANS + AS4_PATH, the merge gives `total` AS numbers
                n4 = rng.choice([1, 10, 100, total - len(first) - 1])
                n4 = max(1, min(n4, total - len(first)))
                new = [4200000000 + i for i in range(n4)]
                old = first + [64512 + (i % 1000) for i in range(total - len(first) - n4)]
                path = R.attribute(R.A_AS_PATH, R.enc_as_path([(2, old + [23456] * n4)], False)) + R.attribute(R.A_AS4_PATH, R.enc_as_path([(2, new)], True))
            attrs = R.attribute(R.A_ORIGIN, b'\x00') + path + R.attribute(R.A_NEXT_HOP, bytes([10, 0, 0, 9])) + lp
            return 2, R.build_update(attrs=attrs, nlri=v4nlri(kind))[19:], True
        if style == 'many-unknown':
            attrs = base_attrs(kind)
            n = rng.choice([100, 215, 215])
            codes = [c for c in range(41, 256)][:n]
            rng.shuffle(codes)
            for c in codes:
                a = R.attribute(c, rb(rng, rng.choice([0, 0, 1, 3])), flags=rng.choice([0x80, 0xC0]))
                if len(attrs) + len(a) + 4 + 8 > mx:
                    break
                attrs += a
            return 2, R.build_update(attrs=attrs, nlri=v4nlri(kind))[19:], True
        if style == 'max-size':
            attrs = base_attrs(kind)
            filler = mx - 4 - len(attrs) - 4 - len(v4nlri(kind))
            attrs += R.attribute(250, rb(rng, max(0, filler)), flags=0xC0, extlen=True)
            return 2, R.build_update(attrs=attrs, nlri=v4nlri(kind))[19:], True
        if style == 'empty-values':
            attrs = base_attrs(kind) + R.attribute(R.A_COMMUNITY, b'', flags=0xC0) + R.attribute(R.A_CLUSTER, b'') + R.attribute(99, b'', flags=0xC0)
            return 2, R.build_update(attrs=attrs, nlri=v4nlri(kind))[19:], False  # empty COMMUNITIES is arguable: not tagged valid
        one = len(v4nlri(kind, '10.0.0.1/32'))
        n = (mx - 4) // one
        wd = b''.join(v4nlri(kind, f'10.{(i >> 16) & 255}.{(i >> 8) & 255}.{i & 255}/32') for i in range(n))
        return 2, R.build_update(withdrawn=wd)[19:], True
    if g.startswith('corpus'):
        items = corpus()
        seed_item = rng.choice(items)
        t = seed_item['type']
        body = bytearray(bytes.fromhex(seed_item['body']))
        if g == 'corpus':
            return t, bytes(body[:mx]), False
        if g == 'corpus-mutate' or t != 2:
            return t, mutate(rng, body)[:mx], False
        try:
            wd, attrs, nlri = R.split_update(bytes(body))
            alist = R.split_attributes(attrs)
        except R.RefError:
            return t, mutate(rng, body)[:mx], False
        if g == 'corpus-splice':
            other = rng.choice([i for i in items if i['type'] == 2])
            try:
                _, oattrs, _ = R.split_update(bytes.fromhex(other['body']))
                olist = R.split_attributes(oattrs)
            except R.RefError:
                olist = []
            have = {c for _, c, _ in alist}
            extra = [a for a in olist if a[1] not in have or rng.chance(0.1)]
            alist = alist + extra[: rng.randint(1, 4)]
            if rng.chance(0.3):
                rng.shuffle(alist)
            attrs2 = b''.join(R.attribute(c, v, flags=f & 0xEF) for f, c, v in alist)
            return 2, R.build_update(withdrawn=wd, attrs=attrs2[: mx - 8 - len(wd) - len(nlri)], nlri=nlri)[19:], False
        # corpus-attr: the value of one attribute is mutated, its header re-written with the right length:
        # the damage lands inside the attribute's own decoder
        if not alist:
            return t, mutate(rng, body)[:mx], False
        j = rng.randint(0, len(alist) - 1)
        f, c, v = alist[j]
        alist[j] = (f, c, mutate(rng, bytearray(v), inner=True))
        attrs2 = b''.join(R.attribute(c, v, flags=f & 0xEF) for f, c, v in alist)
        if len(attrs2) + len(wd) + len(nlri) + 4 > mx:
            return t, bytes(body[:mx]), False
        return 2, R.build_update(withdrawn=wd, attrs=attrs2, nlri=nlri)[19:], False
    # mutate-valid: a valid UPDATE with a few bytes flipped / removed / inserted
    attrs = base_attrs(kind) + R.attribute(R.A_MED, (5).to_bytes(4, 'big')) + R.attribute(R.A_COMMUNITY, bytes([0xFD, 0xE8, 0, 1])) + R.attribute(R.A_EXT_COMMUNITY, bytes([0, 2, 0xFD, 0xE8, 0, 0, 0, 1]))
    fams = [tuple(f) for f in kind['families']]
    if (2, 1) in fams and rng.chance(0.5):
        attrs += R.attribute(R.A_MP_REACH, bytes([0, 2, 1, 16]) + bytes.fromhex('20010db8000000000000000000000009') + b'\x00' + R.enc_prefix('2001:db8:1::/48'))
    body = bytearray(R.build_update(withdrawn=bytes([16, 172, 16]), attrs=attrs, nlri=v4nlri(kind) + v4nlri(kind, '10.0.0.0/8'))[19:])
    for _ in range(rng.choice([1, 1, 2, 4])):
        op = rng.choice(['flip', 'flip', 'del', 'ins', 'set'])
        pos = rng.randint(0, max(0, len(body) - 1))
        if op == 'flip':
            body[pos] ^= 1 << rng.randint(0, 7)
        elif op == 'set':
            body[pos] = rng.choice([0, 1, 255, 128])
        elif op == 'del':
            del body[pos : pos + rng.choice([1, 2, 4])]
        else:
            body[pos:pos] = rb(rng, rng.choice([1, 2, 4]))
    return 2, bytes(body[:mx]), False


# --------------------------------------------------------------------------- execution


def execute(plan: dict) -> dict:
    import sys

    w = make_world(plan)
    kinds = plan['kinds']
    confs, speakers = [], []
    for k in kinds:
        fams = [tuple(f) for f in k['families']]
        ap = [tuple(f) for f in k['addpath']]
        confs.append(
            {
                'peer_ip': k['peer_ip'], 'local_ip': LOCAL, 'local_as': 'auto' if k.get('local_auto') and k['asn4'] else 65001, 'peer_as': k['peer_as'], 'router_id': LOCAL, 'hold': 180, 'families': fams, 'adj-rib-in': True,
                'caps': {'asn4': k['asn4'], 'add-path': 'receive' if ap else 'disable', 'extended-message': k['extmsg'], 'operational': True, 'aigp': True},
                'addpath_families': ap or None, 'api': {'processes': ['h1'], 'receive': ['parsed', 'update', 'notification', 'open', 'refresh', 'operational']},
                'addpath_limits': {FAM_TEXT[f]: k['paths_limit'] for f in ap} if k.get('paths_limit') else None,
            }
        )  # fmt: skip
        spec = {'asn': k['peer_as'], 'families': fams, 'asn4': k['asn4'], 'extmsg': k['extmsg']}
        if ap:
            spec['addpath'] = [(a, s, 2) for a, s in ap]
            if k.get('ap_extra'):
                # the peer's ADD-PATH capability also names a family ours does not (legal: each side lists what it wants)
                spec['addpath'] += [(a, s, 3) for a, s in fams if (a, s) not in ap and s in (1, 4, 128)][:1]
        sp = Speaker(w, f'p{k["idx"]}', k['peer_ip'], k['peer_as'], k['peer_ip'], LOCAL, hold=180, caps=speaker_caps(spec))
        if k.get('open_ext'):
            sp.open_bytes = lambda s_, sp=sp: R.build_open(sp.asn, sp.hold, sp.router_id, sp.caps, extended=True)
        speakers.append(sp)
    w.boot(config_text([{'name': 'h1'}], confs))
    h = w.procs.helper('h1')
    w.net.split_p = plan.get('split_p', 0.0)
    probes: dict = {'bodies': 0, 'reached_unpack': 0, 'foreign_exceptions': 0, 'max_calls_per_byte_x100': 0}
    violations: list[dict] = []
    unpack_log: list[dict] = []

    # pass-through recorder on Message.unpack: exception type and interpreter calls
    from exabgp.bgp.message import Message
    from exabgp.bgp.message.notification import Notify

    orig = Message.unpack.__func__

    def recorder(cls, message, data, negotiated):
        calls = [0]

        def prof(frame, event, arg):
            if event == 'call':
                calls[0] += 1

        try:
            peer_ip = str(negotiated.neighbor.session.peer_address)
        except Exception:  # noqa: BLE001
            peer_ip = '?'
        sessno = next((len(sp_.sessions) - 1 for sp_, k_ in zip(speakers, kinds) if k_['peer_ip'] == peer_ip), -1)
        rec = {'type': int(message), 'len': len(data), 'exc': None, 'calls': 0, 't': w.loop.mono, 'peer': peer_ip, 'sessno': sessno}
        unpack_log.append(rec)
        old = sys.getprofile()
        sys.setprofile(prof)
        try:
            return orig(cls, message, data, negotiated)
        except Notify as exc:
            rec['exc'] = ('Notify', int(exc.code), int(exc.subcode))
            raise
        except BaseException as exc:  # noqa: BLE001
            import traceback

            tb = traceback.extract_tb(exc.__traceback__)
            site = next((f'{f.filename.split("/exabgp/")[-1]}:{f.name}' for f in reversed(tb) if '/exabgp/' in f.filename), '?')
            rec['exc'] = (type(exc).__name__, str(exc)[:120], site)
            raise
        finally:
            sys.setprofile(old)
            rec['calls'] = calls[0]

    Message.unpack = classmethod(recorder)

    # ... and on the one place decoded messages are rendered for the API (attributes and NLRI are decoded lazily there)
    from exabgp.reactor.api.processes import Processes

    orig_message = Processes.message

    def render_recorder(self, message_id, peer, direction, message, header, body, negotiated):
        try:
            return orig_message(self, message_id, peer, direction, message, header, body, negotiated)
        except BaseException as exc:  # noqa: BLE001
            import traceback

            tb = traceback.extract_tb(exc.__traceback__)
            site = next((f'{f.filename.split("/exabgp/")[-1]}:{f.name}' for f in reversed(tb) if '/exabgp/' in f.filename), '?')
            unpack_log.append({'type': int(message_id), 'len': len(body), 'exc': (type(exc).__name__, str(exc)[:120], site), 'calls': 0, 't': w.loop.mono, 'peer': '?', 'phase': 'render'})
            raise

    Processes.message = render_recorder

    sent: list[list] = [[] for _ in kinds]
    benign_n = [0]

    def benign(i: int) -> tuple[bytes, str]:
        benign_n[0] += 1
        n = benign_n[0]
        prefix = f'198.18.{i}.{n % 250}/32'
        return R.build_update(attrs=base_attrs(kinds[i]), nlri=v4nlri(kinds[i], prefix)), prefix

    pos = [0 for _ in kinds]
    finished = {'t': None}

    def step(i: int, sess) -> None:
        sc = plan['scripts'][i]
        if sess.state == 'closed' or pos[i] >= len(sc['items']):
            return
        item = sc['items'][pos[i]]
        pos[i] += 1
        mtype, body, valid = build(item, kinds[i])
        rec = {'item': item, 'type': mtype, 'len': len(body), 'valid': valid, 'sess': sess, 'at': w.loop.mono, 'benign': None}
        sent[i].append(rec)
        probes['bodies'] += 1
        msg = R.message(mtype, body)
        slow = item.get('slow')
        extra = 0.0
        if slow and len(msg) > slow[0]:
            # the message arrives in two pieces further apart than the peer loop's 0.1 s read poll
            sess.send(msg, cuts=[slow[0]], delays=[0.0, slow[1]])
            extra = slow[1]
            probes['slow_split'] = probes.get('slow_split', 0) + 1
        else:
            sess.send(msg)
        if sc['state'] == 'established':

            def fire_benign(rec=rec) -> None:
                if sess.state == 'closed':
                    return
                msg, prefix = benign(i)
                rec['benign'] = prefix
                sess.send(msg)

            w.after(plan['gap'] + extra, fire_benign)
            w.after(plan['gap'] * 2 + extra, lambda: step(i, sess))

    for i, sp in enumerate(speakers):
        st = plan['scripts'][i]['state']
        if st == 'established':
            # the script continues on every new session ExaBGP opens after a refusal
            sp.on_established.append(lambda sess, i=i: w.after(0.1, lambda: step(i, sess)))
        elif st == 'openconfirm':
            sp.auto_keepalive = False
            sp.on_open.append(lambda sess, i=i: w.after(0.1, lambda: step(i, sess)) if sess.index == 0 else None)
        else:
            sp.auto_open = False
            sp.on_session.append(lambda sess, i=i: w.after(0.1, lambda: step(i, sess)) if sess.index == 0 else None)

    def driver() -> None:
        now = w.loop.mono
        done = all(pos[i] >= len(plan['scripts'][i]['items']) for i in range(len(kinds)))
        if finished['t'] is None and (done or now > 45.0):
            finished['t'] = now + plan['gap'] * 3 + 0.5
        if finished['t'] is not None and now >= finished['t']:
            h.emit(b'show neighbor summary\n')

            def finish() -> None:
                judge(w, plan, kinds, speakers, sent, h, unpack_log, violations, probes)
                w.signal('SHUTDOWN')

            w.after(2.0, finish)
            return
        w.after(0.5, driver)

    w.at(1.0, driver)
    total = 60.0
    try:
        w.run(until=total + 5.0)
    finally:
        Message.unpack = classmethod(orig)
        Processes.message = orig_message
    nontrivial = probes['reached_unpack'] > 0
    for sc in plan['scripts']:
        for item in sc['items']:
            probes['gen:' + item['gen']] = probes.get('gen:' + item['gen'], 0) + 1
        probes['state:' + sc['state']] = probes.get('state:' + sc['state'], 0) + 1
    return result(w, violations[:1], probes=probes, faults={'hostile_bodies': probes['bodies'], 'segmented_delivery': 1 if plan.get('split_p') else 0}, nontrivial=nontrivial,
                  sample={'kinds': [(k['asn4'], k['extmsg'], len(k['families'])) for k in kinds], 'scripts': [(s['state'], [i['gen'] for i in s['items']][:6]) for s in plan['scripts']]})  # fmt: skip


def judge(w, plan, kinds, speakers, sent, h, unpack_log, violations, probes) -> None:
    probes['reached_unpack'] = len(unpack_log)
    for rec in unpack_log:
        if rec['exc'] is not None and rec['exc'][0] != 'Notify':
            probes['foreign_exceptions'] += 1
            violations.append(viol('C03/foreign-exception', f'{"rendering" if rec.get("phase") == "render" else "decoding"} a type {rec["type"]} body of {rec["len"]} bytes raised {rec["exc"][0]}: {rec["exc"][1]} at {rec["exc"][2]}', error=rec['exc'][0], site=rec['exc'][2], type=rec['type']))
            return
        ratio = rec['calls'] * 100 // max(1, rec['len'])
        probes['max_calls_per_byte_x100'] = max(probes['max_calls_per_byte_x100'], ratio)
        if rec['calls'] > WORK_BASE + WORK_PER_BYTE * rec['len']:
            violations.append(viol('C03/work-not-proportional', f'decoding a type {rec["type"]} body of {rec["len"]} bytes took {rec["calls"]} interpreter calls (bound {WORK_BASE} + {WORK_PER_BYTE}/byte)', type=rec['type']))
            return
    if w.ended == 'crash':
        return  # reported by result()
    # wedged: the API must still answer
    if not any(ln == 'done' for _, ln in h.lines) and not any('"type": "' in ln or ln.startswith('neighbor') for _, ln in h.lines[-3:]):
        pass
    answered = any(ln in ('done', 'error') for _, ln in h.lines)
    if not answered:
        violations.append(viol('C03/wedged', 'the API command sent after the hostile bodies was never answered'))
        return
    for i, k in enumerate(kinds):
        sp = speakers[i]
        probes['sessions'] = probes.get('sessions', 0) + len(sp.sessions)
        for sess in sp.sessions:
            mine_sent = [r for r in sent[i] if r['sess'] is sess]
            if sess.state == 'closed' and sess.closed_by != 'speaker' and mine_sent and all(r['valid'] for r in mine_sent) and plan['scripts'][i]['state'] == 'established':
                violations.append(viol('C03/valid-message-refused', f'session {i}.{sess.index} only received messages valid by construction ({[r["item"]["gen"] + ("/slow" if r["item"].get("slow") else "") for r in mine_sent][:4]}) and was ended with NOTIFICATION {sess.notification_rx[:2] if sess.notification_rx else None}', gen=mine_sent[-1]['item']['gen']))
                return
            if not mine_sent and sess.notification_rx is not None and sess.notification_rx[0] in (1, 2, 3, 5) and sess.sent_open and plan['scripts'][i]['state'] in ('established', 'openconfirm') and sess.closed_by != 'speaker':
                # nothing of the script went out on this session: all exabgp saw was the speaker's OPEN (and KEEPALIVE), valid by construction
                violations.append(viol('C03/valid-message-refused', f'session {i}.{sess.index} had only sent its well-formed OPEN{" (RFC 9072 extended format)" if k.get("open_ext") else ""} and was ended with NOTIFICATION {sess.notification_rx[0]}/{sess.notification_rx[1]}', gen='open'))
                return
            if not mine_sent and sess.state == 'closed' and sess.notification_rx is None and sess.closed_by == 'exabgp' and sess.sent_open and plan['scripts'][i]['state'] in ('established', 'openconfirm'):
                violations.append(viol('C03/closed-without-notification', f'session {i}.{sess.index} had only sent its well-formed OPEN and was closed by ExaBGP without a NOTIFICATION (the peer task died?)', type=1, gen='open'))
                return
            if sess.state == 'closed':
                n = sess.notification_rx
                if n is None:
                    if sess.closed_by != 'speaker' and mine_sent and not any(r['type'] == 3 for r in mine_sent) and sess.index == 0:
                        probes['closed_without_notification'] = probes.get('closed_without_notification', 0) + 1
                        last = mine_sent[-1]
                        violations.append(viol('C03/closed-without-notification', f'session {i}.{sess.index} was closed by ExaBGP without a NOTIFICATION after a {last["item"]["gen"]} type {last["type"]} body', type=last['type'], gen=last['item']['gen']))
                        return
                else:
                    code, sub = n[0], n[1]
                    probes[f'notification:{code}/{sub}'] = probes.get(f'notification:{code}/{sub}', 0) + 1
                    if code not in DEFINED or sub not in DEFINED[code]:
                        violations.append(viol('C03/undefined-notification', f'session {i}.{sess.index} was refused with NOTIFICATION {code}/{sub}, which no RFC defines', code=code, sub=sub))
                        return
            else:
                probes['sessions_surviving'] = probes.get('sessions_surviving', 0) + 1
        events = [ln for _, ln in h.lines if f'"peer": "{k["peer_ip"]}"' in ln]
        for r in sent[i]:
            sess = r['sess']
            if r['valid'] and plan['scripts'][i]['state'] == 'established':
                # the decoder's own verdict on this very body (matched by peer, type and length in decoding order)
                # (bodies of the same type and length are told apart by their rank among those sent on this session)
                rank = sum(1 for x in sent[i] if x['sess'] is sess and x['type'] == r['type'] and x['len'] == r['len'] and x['at'] < r['at'])
                mine = [u for u in unpack_log if u['peer'] == k['peer_ip'] and u.get('sessno') == sess.index and u['type'] == r['type'] and u['len'] == r['len'] and u.get('phase') != 'render'][rank:]
                if mine and mine[0]['exc'] is not None:
                    violations.append(viol('C03/valid-message-refused', f'session {i}: a valid {r["item"]["gen"]} UPDATE of {r["len"]} bytes was refused: {mine[0]["exc"]}', gen=r['item']['gen']))
                    return
                if mine:
                    probes['valid_accepted'] = probes.get('valid_accepted', 0) + 1
            if r['benign'] and sess.state != 'closed':
                if not any(f'"nlri": "{r["benign"]}"' in ln for ln in events):
                    violations.append(viol('C03/wedged', f'session {i}.{sess.index} is up but the benign UPDATE for {r["benign"]} sent after a {r["item"]["gen"]} body was never reported', gen=r['item']['gen']))
                    return


def shrink_candidates(plan: dict):
    if len(plan['kinds']) > 1:
        for i in range(len(plan['kinds'])):
            p = jclone(plan)
            del p['kinds'][i]
            del p['scripts'][i]
            p['kinds'][0]['idx'] = 0
            yield p
    for i, sc in enumerate(plan['scripts']):
        n = len(sc['items'])
        for j in range(n):
            if n > 1:
                p = jclone(plan)
                p['scripts'][i]['items'] = [sc['items'][j]]
                yield p
        for j in range(n):
            if n > 1:
                p = jclone(plan)
                del p['scripts'][i]['items'][j]
                yield p
        for j, it in enumerate(sc['items']):
            for smaller in (0, 16, 64, 200, 1000, 4000):
                if smaller < it['size']:
                    p = jclone(plan)
                    p['scripts'][i]['items'][j]['size'] = smaller
                    yield p
    for i, k in enumerate(plan['kinds']):
        if len(k['families']) > 1:
            p = jclone(plan)
            p['kinds'][i]['families'] = [[1, 1]]
            p['kinds'][i]['addpath'] = []
            yield p
        for key in ('extmsg',):
            if k.get(key):
                p = jclone(plan)
                p['kinds'][i][key] = False
                yield p
    if plan.get('split_p'):
        p = jclone(plan)
        p['split_p'] = 0.0
        yield p
    kn = plan['knobs']
    if kn.get('tick') != 0.002 or kn.get('drift') or kn.get('wall_step'):
        p = jclone(plan)
        p['knobs'].update({'tick': 0.002, 'drift': 0.0, 'wall_step': 0.0})
        yield p
