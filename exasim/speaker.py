"""SimSpeaker: a scripted remote BGP speaker built on the reference codec only."""

from __future__ import annotations

from typing import Any, Callable

import refbgp as R


class Session:
    def __init__(self, speaker: 'Speaker', conn, index: int) -> None:
        self.speaker = speaker
        self.conn = conn
        self.index = index
        self.framer = R.Framer(65535)
        self.state = 'connected'  # connected -> open-rx -> established -> closed
        self.open_rx: dict | None = None
        self.open_tx: bytes | None = None
        self.established_at: float | None = None
        self.closed_at: float | None = None
        self.ctx = R.Ctx()
        self.table = R.PeerTable()
        self.msgs: list[tuple[float, int, bytes]] = []  # (mono at exabgp write time, type, body)
        self.raw = bytearray()
        self.notification_rx: tuple[int, int, bytes] | None = None
        self.decode_errors: list[str] = []
        self.updates: list[tuple[float, bytes, Any]] = []
        self.ka_rx: list[float] = []
        self.sent_open = False
        self.sent_ka = False
        self.closed_by = None
        self.sent_log: list[tuple] = []  # (mono, cumulative bytes after this message, type)
        self._sent_bytes = 0

    def send(self, data: bytes, cuts=None, delays=None) -> None:
        self.speaker.world.rec('spk-send', spk=self.speaker.name, sess=self.index, n=len(data), type=data[18] if len(data) > 18 else -1)
        self._sent_bytes += len(data)
        self.sent_log.append((self.speaker.world.loop.mono, self._sent_bytes, data[18] if len(data) > 18 else -1))
        self.conn.send(data, cuts, delays)

    def close(self, delay=None) -> None:
        if self.state != 'closed':
            self.closed_by = self.closed_by or 'speaker'
            self.conn.close(delay)
            self._closed()

    def reset(self) -> None:
        if self.state != 'closed':
            self.closed_by = self.closed_by or 'speaker'
            self.conn.reset()
            self._closed()

    def _closed(self) -> None:
        if self.state == 'closed':
            return
        self.state = 'closed'
        self.closed_at = self.speaker.world.loop.mono
        self.speaker.world.rec('spk-closed', spk=self.speaker.name, sess=self.index, by=self.closed_by)
        for h in self.speaker.on_closed:
            h(self)


class Speaker:
    """One remote BGP speaker (one IP address).  Default behaviour is well-behaved and can be
    re-scripted through the public attributes and hook lists."""

    def __init__(self, world, name: str, ip: str, asn: int, router_id: str, exabgp_ip: str, hold: int = 180, caps=None, port: int = 179) -> None:
        self.world = world
        self.name = name
        self.ip = ip
        self.asn = asn
        self.router_id = router_id
        self.exabgp_ip = exabgp_ip
        self.hold = hold
        self.port = port
        self.caps: list[tuple[int, bytes]] = caps if caps is not None else [R.cap_mp(1, 1), R.cap_refresh(), R.cap_asn4(asn)]
        self.sessions: list[Session] = []
        # behaviour knobs
        self.accept_mode = 'accept'  # accept | refuse | blackhole
        self.accept_delay: float | None = None
        self.auto_open = True  # send OPEN as soon as connected
        self.open_after_rx = False  # ... or only after exabgp's OPEN arrived
        self.auto_keepalive = True  # answer OPEN with KEEPALIVE
        self.periodic_keepalive = True
        self.keepalive_interval: float | None = None
        self.silent = False
        self.open_bytes: Callable[['Session'], bytes] | None = None
        # hooks
        self.on_session: list[Callable[[Session], None]] = []
        self.on_open: list[Callable[[Session], None]] = []
        self.on_established: list[Callable[[Session], None]] = []
        self.on_message: list[Callable[[Session, int, bytes], None]] = []
        self.on_closed: list[Callable[[Session], None]] = []
        world.net.remotes[(ip, port)] = self

    # ---- network callbacks ----------------------------------------------------

    def exabgp_ip_for(self, key) -> str:
        return self.exabgp_ip

    def on_connect_attempt(self, sock, key):
        self.world.rec('spk-connect-attempt', spk=self.name, mode=self.accept_mode)
        if self.accept_mode == 'refuse':
            return ('refuse',) if self.accept_delay is None else ('refuse', self.accept_delay)
        if self.accept_mode == 'blackhole':
            return ('blackhole',)
        return ('accept',) if self.accept_delay is None else ('accept', self.accept_delay)

    def on_connected(self, conn, outgoing_from_exabgp: bool) -> Session:
        s = Session(self, conn, len(self.sessions))
        self.sessions.append(s)
        conn.session = s
        self.world.rec('spk-session', spk=self.name, sess=s.index, cid=conn.cid, initiator=conn.initiator)
        for h in self.on_session:
            h(s)
        if self.auto_open and not self.open_after_rx and not self.silent and s.state != 'closed':
            self.send_open(s)
        return s

    def connect_in(self, to_ip: str | None = None, to_port: int | None = None) -> Session | None:
        """the speaker opens a TCP connection to exabgp's listener"""
        conn = self.world.net.remote_connect(self, self.ip, to_ip or self.exabgp_ip, to_port or self.world.listen_port)
        if conn is None:
            return None
        return self.on_connected(conn, False)

    def on_bytes(self, conn, data: bytes, when: float) -> None:
        s: Session = conn.session
        if s.state == 'closed':
            return
        s.raw += data
        for mtype, header, body in s.framer.feed(data):
            s.msgs.append((when, mtype, body))
            self.world.rec('spk-rx', spk=self.name, sess=s.index, type=mtype, n=len(body), at=round(when, 6))
            self._handle(s, mtype, body, when)
            if s.state == 'closed':
                break

    def on_close(self, conn) -> None:
        s: Session = conn.session
        if s.state != 'closed':
            s.closed_by = 'exabgp'
            if not conn.remote_closed:
                conn.remote_closed = True
            s._closed()

    # ---- protocol ---------------------------------------------------------------

    def send_open(self, s: Session) -> None:
        if s.sent_open:
            return
        s.sent_open = True
        data = self.open_bytes(s) if self.open_bytes else R.build_open(self.asn, self.hold, self.router_id, self.caps)
        s.open_tx = data
        s.send(data)
        if s.open_rx is not None and self.auto_keepalive and not s.sent_ka and not self.silent:
            s.sent_ka = True
            s.send(R.keepalive())

    def _handle(self, s: Session, mtype: int, body: bytes, when: float) -> None:
        if mtype == R.OPEN:
            try:
                s.open_rx = R.parse_open(body)
            except R.RefError as exc:
                s.decode_errors.append(f'OPEN: {exc}')
                s.open_rx = None
            if s.state == 'connected':
                s.state = 'open-rx'
            self._negotiate(s)
            for h in self.on_open:
                h(s)
            if s.state == 'closed' or self.silent:
                return
            if self.auto_open and self.open_after_rx:
                self.send_open(s)
            if self.auto_keepalive and not s.sent_ka and s.sent_open:
                # a speaker confirms the peer's OPEN only once it has sent its own
                s.sent_ka = True
                s.send(R.keepalive())
        elif mtype == R.KEEPALIVE:
            s.ka_rx.append(when)
            if s.state == 'open-rx' and s.sent_open and s.sent_ka:
                s.state = 'established'
                s.established_at = self.world.loop.mono
                self.world.rec('spk-established', spk=self.name, sess=s.index)
                if self.periodic_keepalive and not self.silent:
                    self._schedule_ka(s)
                for h in self.on_established:
                    h(s)
        elif mtype == R.UPDATE:
            try:
                d = s.table.apply(body, s.ctx)
                s.updates.append((when, body, d))
            except R.RefError as exc:
                s.decode_errors.append(f'UPDATE: {exc} body={body.hex()[:200]}')
                s.updates.append((when, body, None))
        elif mtype == R.NOTIFICATION:
            s.notification_rx = (body[0] if body else -1, body[1] if len(body) > 1 else -1, bytes(body[2:]))
        for h in self.on_message:
            h(s, mtype, body)

    def _negotiate(self, s: Session) -> None:
        """decoding context for what exabgp sends us, from the two OPENs (reference negotiation)"""
        o = s.open_rx
        if o is None:
            return
        mine = R.summarise_caps(self.caps, self.asn)
        s.ctx.asn4 = o['asn4'] is not None and mine['asn4'] is not None
        ap = {}
        for fam, mode in o['addpath'].items():
            # exabgp sends path ids iff it announced send (2/3) and we announced receive (1/3)
            my = mine['addpath'].get(fam, 0)
            ap[fam] = bool(mode & 2) and bool(my & 1)
        s.ctx.addpath = ap
        s.hold_neg = min(self.hold, o['hold'])
        s.extmsg = o['extmsg'] and mine['extmsg']

    def _schedule_ka(self, s: Session) -> None:
        hold = getattr(s, 'hold_neg', self.hold)
        interval = self.keepalive_interval
        if interval is None:
            if hold == 0:
                return
            interval = max(1.0, hold / 3.0)

        def tick() -> None:
            if s.state != 'established' or self.silent or not self.periodic_keepalive:
                return
            s.send(R.keepalive())
            self.world.loop.env_after(interval, tick)

        self.world.loop.env_after(interval, tick)

    # ---- convenience ------------------------------------------------------------

    def current(self) -> Session | None:
        for s in reversed(self.sessions):
            if s.state != 'closed':
                return s
        return None

    def established(self) -> Session | None:
        for s in reversed(self.sessions):
            if s.state == 'established':
                return s
        return None
