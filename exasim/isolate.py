"""In-process isolation between runs.

Fork-per-run is the clean way to isolate ExaBGP's process-global state, but in this sandbox
copy-on-write page faults under 16-way concurrency make a forked child 10-50x slower than the
run itself.  Bulk exploration therefore executes many runs in one worker process and restores
every exabgp module-level and class-level mutable container / scalar to its pristine
(post-import, pre-run) value between runs.  Soundness does not rest on this being perfect:
every violation is re-executed in a fresh forked child before it is believed, and the
determinism self-test compares in-process digests with fresh-process digests.
"""

from __future__ import annotations

import collections
import sys
import types

_SNAP: list | None = None
_SCALARS = (int, float, str, bool, bytes, type(None), tuple, frozenset)
_CONTAINERS = (dict, list, set, collections.deque, bytearray)


def _copy(v, depth: int = 0):
    if depth > 4:
        return v
    t = type(v)
    if t in (dict, collections.OrderedDict):
        return t((k, _copy(x, depth + 1)) for k, x in v.items())
    if t is collections.defaultdict:
        d = collections.defaultdict(v.default_factory)
        for k, x in v.items():
            d[k] = _copy(x, depth + 1)
        return d
    if t is list:
        return [_copy(x, depth + 1) for x in v]
    if t is set:
        return set(v)
    if t is collections.deque:
        return collections.deque((_copy(x, depth + 1) for x in v), v.maxlen)
    if t is bytearray:
        return bytearray(v)
    if isinstance(v, dict) and getattr(t, '__module__', '').startswith('exabgp'):
        # a dict subclass of exabgp's own (util.cache.Cache inside Attribute.cache): a fresh instance with copied items and attributes
        import copy as _c

        c = _c.copy(v)
        dict.clear(c)
        for k, x in v.items():
            dict.__setitem__(c, k, _copy(x, depth + 1))
        for k, x in list(vars(c).items()):
            if isinstance(x, _CONTAINERS):
                setattr(c, k, _copy(x, depth + 1))
        return c
    return v


def _namespaces():
    seen = set()
    for name, mod in list(sys.modules.items()):
        if mod is None or not (name == 'exabgp' or name.startswith('exabgp.')):
            continue
        if id(mod) in seen:
            continue
        seen.add(id(mod))
        yield mod
        stack = [v for v in vars(mod).values() if isinstance(v, type) and getattr(v, '__module__', '').startswith('exabgp')]
        while stack:
            cls = stack.pop()
            if id(cls) in seen:
                continue
            seen.add(id(cls))
            yield cls
            for v in vars(cls).values():
                if isinstance(v, type) and getattr(v, '__module__', '').startswith('exabgp'):
                    stack.append(v)


def snapshot() -> int:
    """record the pristine state; call once after preload() and before the first run"""
    global _SNAP
    snap = []
    for ns in _namespaces():
        names = {}
        for k, v in list(vars(ns).items()):
            if k.startswith('__') and k.endswith('__'):
                continue
            if isinstance(v, _CONTAINERS):
                names[k] = ('c', v, _copy(v))
            elif isinstance(v, _SCALARS):
                names[k] = ('s', v, None)
            else:
                names[k] = ('o', v, None)
        snap.append((ns, names))
    _SNAP = snap
    return len(snap)


def restore() -> None:
    if _SNAP is None:
        return
    for ns, names in _SNAP:
        cur = vars(ns)
        for k in [k for k in cur if k not in names and not (k.startswith('__') and k.endswith('__'))]:
            try:
                delattr(ns, k)
            except (AttributeError, TypeError):
                pass
        for k, (kind, obj, saved) in names.items():
            if kind == 'c':
                if cur.get(k) is not obj:
                    _set(ns, k, obj)
                fresh = _copy(saved)
                if isinstance(obj, dict):
                    obj.clear()
                    obj.update(fresh)
                elif isinstance(obj, list):
                    obj[:] = fresh
                elif isinstance(obj, set):
                    obj.clear()
                    obj.update(fresh)
                elif isinstance(obj, collections.deque):
                    obj.clear()
                    obj.extend(fresh)
                elif isinstance(obj, bytearray):
                    obj[:] = fresh
            elif kind == 's':
                if k not in cur or cur[k] is not obj:
                    _set(ns, k, obj)
            else:
                v = cur.get(k)
                if v is not obj:
                    _set(ns, k, obj)
                if hasattr(obj, 'cache_clear'):
                    try:
                        obj.cache_clear()
                    except Exception:
                        pass
    import gc

    gc.collect()


def _set(ns, k, v) -> None:
    try:
        setattr(ns, k, v)
    except (AttributeError, TypeError):
        pass
