"""Simulated helper (API) processes: fake subprocess / os / fcntl / Thread names for
exabgp.reactor.api.processes, and the SimHelper actor at the other end of the pipes."""

from __future__ import annotations

import errno
import os as _real_os
from typing import Any, Callable


class _Pipe:
    def __init__(self, fd: int) -> None:
        self.fd = fd
        self.closed = False

    def fileno(self) -> int:
        return self.fd

    def close(self) -> None:
        self.closed = True


class SimPopen:
    """What exabgp sees as subprocess.Popen."""

    def __init__(self, procs: 'SimProcs', args, **kw) -> None:
        self.procs = procs
        self.args = list(args)
        self.env = kw.get('env')
        procs._fd += 2
        self.stdin = _Pipe(procs._fd - 1)  # exabgp writes here
        self.stdout = _Pipe(procs._fd)  # exabgp reads here
        self.returncode: int | None = None
        self.pid = 30000 + procs._fd
        self.helper = procs._attach(self)

    def poll(self):
        return self.returncode

    def wait(self, timeout=None):
        if self.returncode is None:
            self.returncode = -15
        return self.returncode

    def terminate(self) -> None:
        self.procs.rec('proc-terminate', name=self.helper.name if self.helper else '?')
        if self.returncode is None:
            self.returncode = -15
        if self.helper is not None:
            self.helper.on_terminated(self)

    def kill(self) -> None:
        self.terminate()


class SimHelper:
    """An API helper process: a scripted command writer and a recorder of everything exabgp writes.

    Output (helper -> exabgp) is queued as bytes; `release` decides how many bytes each os.read sees.
    Input  (exabgp -> helper) goes through `capacity` (pipe buffer space) and is split into lines.
    """

    def __init__(self, procs: 'SimProcs', name: str) -> None:
        self.procs = procs
        self.name = name
        self.popen: SimPopen | None = None
        self.generation = 0
        self.out = bytearray()  # bytes written by the helper, not yet read by exabgp
        self.readable = 0  # how many of them the kernel has made visible
        self.chunk_plan: list[int] = []  # sizes of successive os.read results (then: everything)
        self.inbuf = bytearray()
        self.lines: list[tuple[float, str]] = []  # (mono, line) exabgp -> helper
        self.capacity: int | None = None  # None = unlimited pipe space
        self.eagain_budget = 0  # number of os.write calls to refuse with EAGAIN
        self.broken = False  # EPIPE on write
        self.exited = False
        self.on_line: Callable[[str], None] | None = None
        self.write_calls = 0
        self.eagains = 0
        self.partial_writes = 0
        self.reads = 0
        self.split_reads = 0  # reads ending inside a line
        self.multi_reads = 0  # reads holding several lines

    # ---- helper side -----------------------------------------------------

    def emit(self, data: bytes, visible: bool = True) -> None:
        """the helper writes bytes on its stdout"""
        self.out += data
        if visible:
            self.readable = len(self.out)

    def make_visible(self, n: int | None = None) -> None:
        self.readable = len(self.out) if n is None else min(len(self.out), self.readable + n)

    def exit(self, code: int = 0) -> None:
        self.exited = True
        if self.popen is not None:
            self.popen.returncode = code

    def on_terminated(self, popen: SimPopen) -> None:
        pass

    # ---- exabgp side -------------------------------------------------------

    def _fd_readable(self) -> bool:
        return self.readable > 0 or self.exited

    def _read(self, n: int) -> bytes:
        self.reads += 1
        if self.readable <= 0:
            if self.exited:
                return b''
            raise BlockingIOError(errno.EAGAIN, 'no data')
        k = min(n, self.readable)
        if self.chunk_plan:
            k = max(1, min(k, self.chunk_plan.pop(0)))
        data = bytes(self.out[:k])
        del self.out[:k]
        if not data.endswith(b'\n'):
            self.split_reads += 1
        if data.count(b'\n') > 1:
            self.multi_reads += 1
        self.readable -= k
        self.procs.rec('proc-read', name=self.name, n=k)
        return data

    def _write(self, data: bytes) -> int:
        self.write_calls += 1
        if self.broken or self.exited:
            raise BrokenPipeError(errno.EPIPE, 'broken pipe')
        if self.eagain_budget > 0:
            self.eagain_budget -= 1
            self.eagains += 1
            raise BlockingIOError(errno.EAGAIN, 'pipe full')
        n = len(data)
        if self.capacity is not None:
            if self.capacity <= 0:
                self.eagains += 1
                raise BlockingIOError(errno.EAGAIN, 'pipe full')
            if n > self.capacity:
                n = self.capacity
                self.partial_writes += 1
            self.capacity -= n
        self.inbuf += data[:n]
        while b'\n' in self.inbuf:
            i = self.inbuf.index(b'\n')
            line = bytes(self.inbuf[:i]).decode('utf-8', 'replace')
            del self.inbuf[: i + 1]
            self.lines.append((self.procs.loop.mono, line))
            self.procs.rec('proc-line', name=self.name, line=line if len(line) < 400 else line[:400] + '..')
            if self.on_line is not None:
                self.on_line(line)
        return n


class SimProcs:
    def __init__(self, loop, rec) -> None:
        self.loop = loop
        self.rec = rec
        self._fd = 2000
        self.helpers: dict[str, SimHelper] = {}
        self.by_fd: dict[int, tuple[SimHelper, str]] = {}
        self.spawned: list[str] = []
        self.spawn_error: dict[str, int] = {}

    def helper(self, name: str) -> SimHelper:
        if name not in self.helpers:
            self.helpers[name] = SimHelper(self, name)
        return self.helpers[name]

    def _attach(self, popen: SimPopen) -> SimHelper:
        name = popen.args[-1] if popen.args else 'anon'
        if name in self.spawn_error:
            raise OSError(self.spawn_error[name], 'simulated spawn failure')
        h = self.helper(name)
        h.popen = popen
        h.generation += 1
        if h.generation > 1:
            # a respawned helper starts afresh
            h.out = bytearray()
            h.readable = 0
            h.inbuf = bytearray()
            h.exited = False
            h.broken = False
        self.by_fd[popen.stdin.fd] = (h, 'in')
        self.by_fd[popen.stdout.fd] = (h, 'out')
        self.spawned.append(name)
        self.rec('proc-spawn', name=name, gen=h.generation)
        return h

    def fd_readable(self, fd: int) -> bool:
        ent = self.by_fd.get(fd)
        if ent is None:
            return False
        h, way = ent
        if h.popen is None or h.popen.stdout.fd != fd:
            return False
        return way == 'out' and h._fd_readable()


class FakeOs:
    """`os` inside processes.py: real os except read/write on simulated fds."""

    def __init__(self, procs: SimProcs) -> None:
        self._procs = procs

    def read(self, fd, n):
        ent = self._procs.by_fd.get(fd)
        if ent is None:
            raise OSError(errno.EBADF, 'bad simulated fd')
        return ent[0]._read(n)

    def write(self, fd, data):
        ent = self._procs.by_fd.get(fd)
        if ent is None:
            raise OSError(errno.EBADF, 'bad simulated fd')
        return ent[0]._write(bytes(data))

    def __getattr__(self, name):
        return getattr(_real_os, name)


class FakeSubprocess:
    PIPE = -1
    STDOUT = -2
    DEVNULL = -3

    class TimeoutExpired(Exception):
        pass

    class CalledProcessError(Exception):
        pass

    def __init__(self, procs: SimProcs) -> None:
        self._procs = procs

    def Popen(self, args, **kw):
        return SimPopen(self._procs, args, **kw)


class FakeFcntl:
    F_SETFL = 4
    F_GETFL = 3

    def fcntl(self, *a) -> int:
        return 0


class FakeThread:
    def __init__(self, target=None, args=(), kwargs=None, **kw) -> None:
        self._t = target
        self._a = args
        self._k = kwargs or {}

    def start(self) -> None:
        if self._t is not None:
            self._t(*self._a, **self._k)

    def join(self, timeout=None) -> None:
        pass
