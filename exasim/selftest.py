"""Determinism self-test: the same plan must give the same history digest
  - in-process after different predecessors (state restore is good enough),
  - in a fresh forked child (isolation reference),
  - in another worker process with the same PYTHONHASHSEED.
A mismatch is a harness error (exit 2), never a verdict."""

from __future__ import annotations

import glob
import os
import time

from . import runner


def scenarios() -> list[str]:
    here = os.path.join(runner.VERIF, 'scenarios')
    return sorted(os.path.basename(p)[:-3] for p in glob.glob(os.path.join(here, 'c[0-9][0-9].py')))


def main(quick: bool = False, only: list[str] | None = None) -> int:
    t0 = time.time()
    names = only or scenarios()
    n = 6 if quick else 40
    nfork = 2 if quick else 8
    pool = runner.Pool()
    bad = 0
    total = 0
    for name in names:
        # pass A: indices in order; pass B: reversed order (different predecessors, different worker)
        reqs = []
        for rep, order in ((0, list(range(n))), (1, list(reversed(range(n))))):
            for i in order:
                reqs.append(({'op': 'gen', 'scenario': name, 'seed': 777, 'index': i, 'tier': 'quick', 'rep': rep, 'mode': 'inproc'}, i % runner.HASHSEEDS))
        for i in range(nfork):
            reqs.append(({'op': 'gen', 'scenario': name, 'seed': 777, 'index': i, 'tier': 'quick', 'rep': 2, 'mode': 'fork'}, i % runner.HASHSEEDS))
        seen: dict[int, dict[int, str]] = {}
        errs = 0
        for res in pool.map(reqs):
            if not res.get('ok'):
                errs += 1
                print(f'# selftest {name}: harness error {res.get("error")} {res.get("trace", "")[-600:]}')
                continue
            idx = res['req']['index']
            seen.setdefault(idx, {})[res['req']['rep']] = res['digest'] + ':' + str(len(res.get('violations', [])))
        mism = [i for i, d in seen.items() if len(set(d.values())) > 1]
        total += len(seen)
        if mism or errs:
            bad += len(mism) + errs
            print(f'# selftest {name}: NON-DETERMINISTIC indices={mism[:10]} errors={errs} e.g. {seen.get(mism[0]) if mism else ""}')
        else:
            print(f'# selftest {name}: {len(seen)} plans x (2 in-process orders + {nfork} fresh forks) identical digests')
    pool.close()
    print(f'# selftest: scenarios={len(names)} plans={total} mismatches={bad} wall={time.time() - t0:.1f}s')
    return 2 if bad else 0
