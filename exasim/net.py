"""Simulated TCP: reliable ordered byte streams with the faults TCP really has.

SimSocket implements exactly the socket surface ExaBGP touches.  A SimConn links the
ExaBGP-side SimSocket to a remote *endpoint* owned by an actor (exasim.speaker).
"""

from __future__ import annotations

import errno
import socket as _real_socket
import select as _real_select
from typing import Any, Callable


class SimConn:
    """One TCP connection between an ExaBGP-side SimSocket and a remote actor."""

    def __init__(self, net: 'SimNet', cid: int, sock: 'SimSocket', actor: Any, initiator: str) -> None:
        self.net = net
        self.cid = cid
        self.sock = sock
        self.actor = actor
        self.initiator = initiator  # 'exabgp' | 'remote'
        self.remote_closed = False  # remote actor closed / reset its side
        self.local_closed = False  # exabgp closed its side
        self._to_exa_last = 0.0  # delivery times are monotonic per direction
        self._to_rem_last = 0.0
        self._seg = 0
        self.tx_bytes = 0  # bytes exabgp wrote
        self.rx_bytes = 0  # bytes delivered to exabgp's socket buffer
        self.window = None  # None = unlimited; else remaining bytes accepted from exabgp
        self.epipe_grace = 1

    # ---- remote actor -> exabgp -----------------------------------------

    def send(self, data: bytes, cuts: list[int] | None = None, delays: list[float] | None = None) -> None:
        """Remote writes `data`; it reaches exabgp's socket buffer in segments.

        cuts: byte offsets where the stream is segmented; delays[i] = extra latency of segment i
        (relative to the previous segment's arrival, TCP keeps order).
        """
        if self.remote_closed or not data:
            return
        loop = self.net.loop
        ch = self.net.chooser
        if cuts is None:
            cuts = self.net.default_cuts(self, len(data))
        bounds = [0] + sorted(c for c in set(cuts) if 0 < c < len(data)) + [len(data)]
        t = max(loop.mono, self._to_exa_last)
        for i in range(len(bounds) - 1):
            seg = bytes(data[bounds[i] : bounds[i + 1]])
            self._seg += 1
            if delays is not None and i < len(delays):
                d = delays[i]
            else:
                d = self.net.default_latency(self, self._seg)
            t = t + d
            loop.env_at(t, lambda seg=seg: self._deliver_to_exa(seg))
        self._to_exa_last = t

    def _deliver_to_exa(self, seg: bytes) -> None:
        s = self.sock
        if s.closed or s._rx_err:
            return
        s._rx += seg
        self.rx_bytes += len(seg)
        self.net.rec('net-deliver', cid=self.cid, n=len(seg))
        s._wake_reader()

    def close(self, delay: float | None = None) -> None:
        """Remote closes: FIN queued behind the bytes already in flight."""
        if self.remote_closed:
            return
        self.remote_closed = True
        loop = self.net.loop
        t = max(loop.mono, self._to_exa_last) + (self.net.default_latency(self, 'fin') if delay is None else delay)
        self._to_exa_last = t
        loop.env_at(t, self._fin_to_exa)

    def _fin_to_exa(self) -> None:
        s = self.sock
        if s.closed:
            return
        s._rx_eof = True
        self.net.rec('net-fin', cid=self.cid)
        s._wake_reader()
        s._wake_writer()

    def reset(self, delay: float = 0.0) -> None:
        """Remote resets: unread data is discarded, next recv/send fails with ECONNRESET."""
        if self.remote_closed:
            return
        self.remote_closed = True
        self.net.loop.env_after(delay, self._rst_to_exa)

    def _rst_to_exa(self) -> None:
        s = self.sock
        if s.closed:
            return
        s._rx = bytearray()
        s._rx_err = errno.ECONNRESET
        self.net.rec('net-rst', cid=self.cid)
        s._wake_reader()
        s._wake_writer()  # a writer blocked on a closed window fails with ECONNRESET as well
        s._wake_writer()

    def set_window(self, nbytes: int | None) -> None:
        """Flow control: None = open; n = accept n more bytes from exabgp then block."""
        self.window = nbytes
        if nbytes is None or nbytes > 0:
            self.sock._wake_writer()

    # ---- exabgp -> remote actor -----------------------------------------

    def _from_exa(self, data: bytes) -> None:
        loop = self.net.loop
        self._seg += 1
        # one-way latency per write, pipelined: order is kept, delays do not add up
        t = max(loop.mono + self.net.default_latency(self, ('tx', self._seg)), self._to_rem_last)
        self._to_rem_last = t
        when = loop.mono
        if not self.remote_closed:
            self.net.inflight += 1

            def deliver() -> None:
                self.net.inflight -= 1
                self.actor.on_bytes(self, data, when)

            loop.env_at(t, deliver)

    def _exa_closed(self) -> None:
        if self.local_closed:
            return
        self.local_closed = True
        loop = self.net.loop
        t = max(loop.mono + self.net.default_latency(self, 'lfin'), self._to_rem_last)
        self._to_rem_last = t
        self.net.rec('net-exa-close', cid=self.cid)
        loop.env_at(t, lambda: self.actor.on_close(self))


class SimSocket:
    _fileno = 1000

    def __init__(self, net: 'SimNet', family=_real_socket.AF_INET, type=_real_socket.SOCK_STREAM, proto=0) -> None:
        self.net = net
        self.family = family
        self.type = type
        self.proto = proto
        net._fd += 1
        self._fd = net._fd
        self.closed = False
        self.listening = False
        self.local: tuple | None = None
        self.peer: tuple | None = None
        self.conn: SimConn | None = None
        self._rx = bytearray()
        self._rx_eof = False
        self._rx_err = 0
        self._read_waiter = None
        self._write_waiter = None
        self._connect_fut = None
        self._backlog: list['SimSocket'] = []
        self.opts: list[tuple] = []
        net.sockets.append(self)

    # ---- plain socket surface -------------------------------------------

    def fileno(self) -> int:
        return -1 if self.closed else self._fd

    def setsockopt(self, *args) -> None:
        self.opts.append(args)

    def getsockopt(self, level, opt, *a):
        if opt == _real_socket.SO_ERROR:
            return 0
        return 0

    def setblocking(self, flag) -> None:
        pass

    def settimeout(self, t) -> None:
        pass

    def bind(self, addr) -> None:
        if self.net.bind_error is not None:
            raise OSError(self.net.bind_error, 'simulated bind failure')
        self.local = (addr[0], addr[1])

    def listen(self, backlog=0) -> None:
        self.listening = True
        self.net.listeners[(self.local[0], self.local[1])] = self

    def accept(self):
        if self.closed:
            raise OSError(errno.EBADF, 'closed')
        if not self._backlog:
            raise BlockingIOError(errno.EAGAIN, 'no pending connection')
        s = self._backlog.pop(0)
        self.net.rec('net-accept', cid=s.conn.cid if s.conn else -1)
        return s, s.peer

    def connect(self, addr):  # generator path only
        raise BlockingIOError(errno.EINPROGRESS, 'in progress')

    def getsockname(self):
        return self.local if self.local else ('0.0.0.0', 0)

    def getpeername(self):
        if not self.peer:
            raise OSError(errno.ENOTCONN, 'not connected')
        return self.peer

    def shutdown(self, how) -> None:
        pass

    def close(self) -> None:
        if self.closed:
            return
        self.closed = True
        self.net.rec('net-sock-close', fd=self._fd, cid=self.conn.cid if self.conn else -1)
        if self.listening:
            self.net.listeners.pop((self.local[0], self.local[1]), None)
            for s in self._backlog:
                s.close()
        if self._connect_fut is not None:
            self._abort_connect()
        if self.conn is not None:
            self.conn._exa_closed()
        w = self._read_waiter
        self._read_waiter = None
        if w is not None and not w[0].done():
            w[0].set_exception(OSError(errno.EBADF, 'socket closed'))
        w = self._write_waiter
        self._write_waiter = None
        if w is not None and not w.done():
            w.set_exception(OSError(errno.EBADF, 'socket closed'))

    def __del__(self) -> None:
        pass

    # synchronous send/recv (generator writer/reader twin)
    def send(self, data) -> int:
        if self.closed:
            raise OSError(errno.EBADF, 'closed')
        n = self._try_send(memoryview(bytes(data)))
        if n == 0:
            raise BlockingIOError(errno.EAGAIN, 'window closed')
        return n

    def recv_into(self, buf) -> int:
        if self.closed:
            raise OSError(errno.EBADF, 'closed')
        n = self._try_recv_into(buf)
        if n is None:
            raise BlockingIOError(errno.EAGAIN, 'no data')
        return n

    # ---- loop side --------------------------------------------------------

    def _try_recv_into(self, buf):
        if self.closed:
            raise OSError(errno.EBADF, 'closed')
        if self._rx:
            n = min(len(buf), len(self._rx), self.net.recv_cap(self))
            buf[:n] = self._rx[:n]
            del self._rx[:n]
            return n
        if self._rx_err:
            raise OSError(self._rx_err, 'connection reset by peer')
        if self._rx_eof:
            return 0
        return None

    def _wake_reader(self) -> None:
        w = self._read_waiter
        if w is None:
            return
        fut, buf = w
        if fut.done():
            self._read_waiter = None
            return
        try:
            n = self._try_recv_into(buf)
        except OSError as exc:
            self._read_waiter = None
            fut.set_exception(exc)
            return
        if n is not None:
            self._read_waiter = None
            fut.set_result(n)

    def _try_send(self, view) -> int:
        if self.closed:
            raise OSError(errno.EBADF, 'closed')
        c = self.conn
        if c is None:
            raise OSError(errno.ENOTCONN, 'not connected')
        if self._rx_err:
            raise OSError(errno.ECONNRESET, 'connection reset by peer')
        if c.remote_closed and self._rx_eof:
            if c.epipe_grace > 0:
                c.epipe_grace -= 1
                self.net.rec_tx(c, bytes(view), dropped=True)
                return len(view)
            raise OSError(errno.EPIPE, 'broken pipe')
        n = len(view)
        if c.window is not None:
            n = min(n, c.window)
            c.window -= n
        if n:
            data = bytes(view[:n])
            c.tx_bytes += n
            self.net.rec_tx(c, data)
            c._from_exa(data)
        return n

    def _wake_writer(self) -> None:
        w = self._write_waiter
        if w is not None and not w.done():
            self._write_waiter = None
            w.set_result(None)

    def _start_connect(self, address, fut) -> None:
        self._connect_fut = fut
        self.net._connect(self, address, fut)

    def _abort_connect(self) -> None:
        self._connect_fut = None

    def _poll_events(self, mask: int) -> int:
        ev = 0
        if self.closed:
            return _real_select.POLLNVAL
        if self._rx_err:
            ev |= _real_select.POLLERR
        if mask & _real_select.POLLIN and (self._rx or self._rx_eof):
            ev |= _real_select.POLLIN
        if mask & _real_select.POLLOUT and self.conn is not None:
            if self.conn.window is None or self.conn.window > 0:
                ev |= _real_select.POLLOUT
        return ev


class SimNet:
    def __init__(self, loop, chooser, rec: Callable[..., None]) -> None:
        self.loop = loop
        self.chooser = chooser
        self.rec = rec
        self._fd = 1000
        self._cid = 0
        self.sockets: list[SimSocket] = []
        self.conns: list[SimConn] = []
        self.listeners: dict[tuple, SimSocket] = {}
        self.remotes: dict[tuple, Any] = {}  # (ip, port) -> actor accepting connections
        self.bind_error: int | None = None
        self.latency = (0.0005, 0.02)  # default per-segment latency range
        self.max_segment = 1 << 20
        self.split_p = 0.0  # probability of a cut at any candidate point in default_cuts
        self.recv_cap_fn: Callable[[SimSocket], int] | None = None
        self.tx_log: list[tuple] = []  # (cid, mono, bytes)
        self.tx_hook = None
        self.inflight = 0  # writes of exabgp not yet delivered to the remote actor

    # ---- knobs ----------------------------------------------------------

    def default_latency(self, conn: SimConn, key) -> float:
        lo, hi = self.latency
        return lo + (hi - lo) * self.chooser.rand('lat', conn.cid, key)

    def default_cuts(self, conn: SimConn, n: int) -> list[int]:
        if self.split_p <= 0 or n <= 1:
            return []
        k = self.chooser.randint(0, max(0, min(6, n - 1)), 'ncuts', conn.cid, conn._seg)
        if not self.chooser.chance(self.split_p, 'cutp', conn.cid, conn._seg):
            return []
        return [self.chooser.randint(1, n - 1, 'cut', conn.cid, conn._seg, i) for i in range(k)]

    def recv_cap(self, sock: SimSocket) -> int:
        if self.recv_cap_fn is None:
            return 1 << 30
        return max(1, self.recv_cap_fn(sock))

    def rec_tx(self, conn: SimConn, data: bytes, dropped: bool = False) -> None:
        self.tx_log.append((conn.cid, self.loop.mono, data))
        if self.tx_hook is not None:
            self.tx_hook(conn, data)
        self.rec('net-tx', cid=conn.cid, n=len(data), data=data.hex() if len(data) <= 64 else data[:64].hex() + '..', dropped=dropped)

    # ---- connection set-up ------------------------------------------------

    def _new_conn(self, sock: SimSocket, actor, initiator: str) -> SimConn:
        self._cid += 1
        c = SimConn(self, self._cid, sock, actor, initiator)
        sock.conn = c
        self.conns.append(c)
        return c

    def _connect(self, sock: SimSocket, address, fut) -> None:
        """exabgp connects out to (ip, port)."""
        key = (address[0], address[1])
        actor = self.remotes.get(key)
        self.rec('net-connect', to=f'{key[0]}:{key[1]}', fd=sock._fd)
        if actor is None:
            verdict = ('refuse', self.default_latency_raw('noroute', sock._fd))
        else:
            verdict = actor.on_connect_attempt(sock, key)
        kind = verdict[0]
        if kind == 'blackhole':
            return  # never completes; exabgp's own budget decides
        delay = verdict[1] if len(verdict) > 1 else self.default_latency_raw('conn', sock._fd)

        def complete() -> None:
            if fut.done() or sock.closed or sock._connect_fut is not fut:
                return
            sock._connect_fut = None
            if kind == 'refuse':
                self.rec('net-refused', fd=sock._fd)
                fut.set_exception(ConnectionRefusedError(errno.ECONNREFUSED, 'connection refused'))
                return
            if kind == 'error':
                fut.set_exception(OSError(verdict[2], 'simulated connect error'))
                return
            conn = self._new_conn(sock, actor, 'exabgp')
            if sock.local is None or sock.local[1] == 0:
                ip = sock.local[0] if sock.local else actor.exabgp_ip_for(key)
                sock.local = (ip, 40000 + conn.cid)
            sock.peer = key
            self.rec('net-connected', cid=conn.cid, fd=sock._fd, local=sock.local[0], peer=key[0])
            fut.set_result(None)
            actor.on_connected(conn, outgoing_from_exabgp=True)

        self.loop.env_after(delay, complete)

    def default_latency_raw(self, *key) -> float:
        lo, hi = self.latency
        return lo + (hi - lo) * self.chooser.rand('lat-raw', *key)

    def remote_connect(self, actor, remote_ip: str, to_ip: str, to_port: int) -> SimConn | None:
        """A remote actor connects in to an exabgp listener.  Returns the conn, or None if refused."""
        lst = self.listeners.get((to_ip, to_port))
        if lst is None or lst.closed:
            self.rec('net-remote-connect-refused', to=f'{to_ip}:{to_port}')
            return None
        s = SimSocket(self, lst.family)
        s.local = (to_ip, to_port)
        s.peer = (remote_ip, 50000 + self._cid + 1)
        conn = self._new_conn(s, actor, 'remote')
        lst._backlog.append(s)
        self.rec('net-remote-connect', cid=conn.cid, frm=remote_ip, to=f'{to_ip}:{to_port}')
        return conn


# --------------------------------------------------------------------------
# fake modules handed to exabgp (module attribute replacement)
# --------------------------------------------------------------------------


class FakeSocketModule:
    """Stands in for the `socket` module inside exabgp.reactor.network.tcp / listener."""

    def __init__(self, net: SimNet) -> None:
        self._net = net

    def socket(self, family=_real_socket.AF_INET, type=_real_socket.SOCK_STREAM, proto=0):
        return SimSocket(self._net, family, type, proto)

    def __getattr__(self, name):
        return getattr(_real_socket, name)


class _FakePoll:
    def __init__(self) -> None:
        self._reg: dict[Any, int] = {}

    def register(self, sock, mask) -> None:
        self._reg[sock] = mask

    def unregister(self, sock) -> None:
        self._reg.pop(sock, None)

    def poll(self, timeout=None):
        out = []
        for s, mask in self._reg.items():
            if isinstance(s, SimSocket):
                ev = s._poll_events(mask)
                if ev:
                    out.append((s._fd, ev))
        return out


class FakeSelectModule:
    def poll(self):
        return _FakePoll()

    def __getattr__(self, name):
        return getattr(_real_select, name)
