"""World: the real ExaBGP Reactor on SimLoop with simulated network, helper processes,
configuration file and clocks.  One World per process (run in a forked child)."""

from __future__ import annotations

import asyncio
import hashlib
import io
import json
import os
import sys
import time as _time_mod
from typing import Any, Callable

REPO_SRC = os.environ.get('EXABGP_SRC', '/repo/src')
if REPO_SRC not in sys.path:
    sys.path.insert(0, REPO_SRC)

from .choice import Chooser  # noqa: E402
from .loop import HarnessError, SimCap, SimDeadlock, SimLoop  # noqa: E402
from .net import FakeSelectModule, FakeSocketModule, SimNet  # noqa: E402
from .proc import FakeFcntl, FakeOs, FakeSubprocess, FakeThread, SimProcs  # noqa: E402

EPOCH = 1_700_000_000.0

_REAL: dict = {}


def unpatch_globals() -> None:
    """give the process its real clocks / ids back (between in-process runs)"""
    if not _REAL:
        return
    import socket as real_socket
    import uuid

    _time_mod.time = _REAL['time']
    _time_mod.sleep = _REAL['sleep']
    _time_mod.monotonic = _REAL['monotonic']
    _time_mod.perf_counter = _REAL['perf_counter']
    os.getpid = _REAL['getpid']
    os.getppid = _REAL['getppid']
    real_socket.gethostname = _REAL['gethostname']
    real_socket.getfqdn = _REAL['getfqdn']
    uuid.uuid1 = _REAL['uuid1']
    uuid.uuid4 = _REAL['uuid4']


def preload() -> None:
    """import (not run) every exabgp module a World may touch, so that the pristine snapshot of
    exasim.isolate covers them and forked children share them"""
    import importlib
    import pkgutil

    import exabgp

    skip = ('exabgp.application', 'exabgp.cli', 'exabgp.vendoring', 'exabgp.__main__', 'exabgp.debug', 'exabgp.conf')
    for m in pkgutil.walk_packages(exabgp.__path__, 'exabgp.'):
        if m.name.startswith(skip):
            continue
        try:
            importlib.import_module(m.name)
        except Exception:
            pass
    import exabgp.application.healthcheck  # noqa: F401
    import exabgp.debug.report  # noqa: F401


class SimFS:
    """The configuration file(s): content, and the faults a reload can meet."""

    def __init__(self, rec) -> None:
        self.rec = rec
        self.files: dict[str, str] = {}
        self.fault: dict[str, tuple] = {}  # path -> ('enoent',) | ('eacces',) | ('eio', after_line)

    def isfile(self, path: str) -> bool:
        f = self.fault.get(path)
        if f and f[0] == 'enoent':
            return False
        return path in self.files

    def open(self, path: str, mode: str = 'r', *a, **kw):
        if path not in self.files:
            return open(path, mode, *a, **kw)
        f = self.fault.get(path)
        self.rec('fs-open', path=path, fault=f[0] if f else None)
        if f:
            if f[0] == 'enoent':
                raise FileNotFoundError(2, 'No such file or directory', path)
            if f[0] == 'eacces':
                raise PermissionError(13, 'Permission denied', path)
            if f[0] == 'eio':
                return _EioFile(self.files[path], f[1])
        return io.StringIO(self.files[path])


class _EioFile:
    def __init__(self, text: str, after: int) -> None:
        self._lines = text.splitlines(keepends=True)
        self._after = after
        self._i = 0

    def __enter__(self):
        return self

    def __exit__(self, *a) -> bool:
        return False

    def __iter__(self):
        return self

    def __next__(self) -> str:
        if self._i >= self._after:
            raise OSError(5, 'Input/output error')
        if self._i >= len(self._lines):
            raise StopIteration
        self._i += 1
        return self._lines[self._i - 1]

    def close(self) -> None:
        pass


class _FakeOsPath:
    def __init__(self, fs: SimFS) -> None:
        self._fs = fs

    def realpath(self, p):
        return p if p in self._fs.files else os.path.realpath(p)

    def isfile(self, p):
        if p in self._fs.files:
            return self._fs.isfile(p)
        return os.path.isfile(p)

    def __getattr__(self, name):
        return getattr(os.path, name)


class _FakeOsForConfig:
    def __init__(self, fs: SimFS) -> None:
        self.path = _FakeOsPath(fs)

    def __getattr__(self, name):
        return getattr(os, name)


class World:
    CONFIG_PATH = '/sim/exabgp.conf'

    def __init__(
        self,
        micro_seed: int = 1,
        tick: float = 0.002,
        drift: float = 0.0,
        wall_step: float = 0.0,
        max_passes: int = 400_000,
        max_time: float = 900.0,
        listen_ip: str | None = None,
        listen_port: int = 1790,
        env: dict | None = None,
    ) -> None:
        self.chooser = Chooser(micro_seed)
        self.loop = SimLoop(self.chooser.sub('loop'), tick=tick, max_passes=max_passes, max_time=max_time)
        self.history: list[tuple] = []
        self._seq = 0
        self.drift = drift
        self.wall_step = wall_step
        self.wall_steps: list[tuple[float, float]] = []  # (mono, delta)
        self.net = SimNet(self.loop, self.chooser.sub('net'), self.rec)
        self.net.tx_hook = self._on_tx
        self.procs = SimProcs(self.loop, self.rec)
        self.fs = SimFS(self.rec)
        self.loop.fd_readable = self.procs.fd_readable
        self.listen_ip = listen_ip
        self.listen_port = listen_port
        self.env = env or {}
        self.reactor: Any = None
        self.configuration: Any = None
        self.speakers: dict[str, Any] = {}
        self.fsm_log: list[tuple] = []
        self.api_log: list[tuple] = []
        self.reload_log: list[dict] = []
        self.logs: list[tuple] = []
        self.live_generators = 0
        self.read_log: dict[int, list] = {}
        self.fsm_hooks: list = []
        self.at_end: list = []  # called at the end of the run, before the reactor is asked to shut down
        self.tx_states: list[tuple] = []  # (cid, mono, nbytes, fsm state of the owning peer at write time)
        self.generators_started = 0
        self.ended: str | None = None
        self.early_exit = False
        self._shutdown_requested = False
        self.exit_code: Any = None
        self.crash: str | None = None
        self.verbose = bool(os.environ.get('EXASIM_TRACE'))
        self._patched = False

    # ------------------------------------------------------------------ history

    def rec(self, _kind: str, **fields) -> None:
        self._seq += 1
        ev = (self._seq, round(self.loop.mono, 6), _kind, fields)
        self.history.append(ev)
        if self.verbose:
            sys.stderr.write(f'{ev[1]:10.4f} {_kind} {fields}\n')

    def digest(self) -> str:
        m = hashlib.sha256()
        for ev in self.history:
            m.update(json.dumps(ev, sort_keys=True, default=str).encode())
        return m.hexdigest()

    def signature(self) -> str:
        """schedule signature: event-kind sequence, payloads abstracted, repeats collapsed"""
        m = hashlib.sha256()
        last = None
        for ev in self.history:
            k = ev[2]
            f = ev[3]
            tag = k + ':' + str(f.get('type', '')) + str(f.get('to', '')) if k in ('spk-rx', 'spk-send', 'fsm') else k
            if tag != last:
                m.update(tag.encode())
                last = tag
        return m.hexdigest()[:16]

    def _on_tx(self, conn, data: bytes) -> None:
        state = '?'
        if self.reactor is not None:
            for p in self.reactor._peers.values():
                pr = p.proto
                if pr is not None and pr.connection is not None and pr.connection.io is conn.sock:
                    state = p.fsm.name()
                    break
            else:
                state = 'no-peer'
        self.tx_states.append((conn.cid, self.loop.mono, len(data), state))

    # ------------------------------------------------------------------- clocks

    def wall(self) -> float:
        w = EPOCH + self.loop.mono * (1.0 + self.drift) + self.wall_step
        for at, delta in self.wall_steps:
            if self.loop.mono >= at:
                w += delta
        return w

    def _sleep(self, d: float) -> None:
        # a blocking sleep inside a callback: the whole process stalls
        self.loop.mono += max(0.0, d)

    # ------------------------------------------------------------------ patching

    def patch(self) -> None:
        if self._patched:
            return
        self._patched = True
        import socket as real_socket
        import uuid

        if not _REAL:
            _REAL.update(
                {
                    'time': _time_mod.time, 'sleep': _time_mod.sleep, 'monotonic': _time_mod.monotonic, 'perf_counter': _time_mod.perf_counter,
                    'getpid': os.getpid, 'getppid': os.getppid, 'gethostname': real_socket.gethostname, 'getfqdn': real_socket.getfqdn,
                    'uuid1': uuid.uuid1, 'uuid4': uuid.uuid4,
                }
            )  # fmt: skip
        _time_mod.time = self.wall
        _time_mod.sleep = self._sleep
        _time_mod.monotonic = lambda: self.loop.mono
        _time_mod.perf_counter = lambda: self.loop.mono
        os.getpid = lambda: 4242
        os.getppid = lambda: 4241
        real_socket.gethostname = lambda: 'simhost'
        real_socket.getfqdn = lambda *a: 'simhost.example'
        self._uuid_n = 0

        def _uuid(*a, **k):
            self._uuid_n += 1
            return uuid.UUID(int=self._uuid_n)

        uuid.uuid1 = _uuid
        uuid.uuid4 = _uuid

        from exabgp.environment import getenv

        env = getenv()
        env.log.enable = False
        env.log.level = 'CRITICAL' if hasattr(env.log, 'level') else env.log.level
        env.api.cli = False
        env.daemon.daemonize = False
        env.daemon.drop = False
        env.tcp.port = self.listen_port
        if self.listen_ip:
            from exabgp.protocol.ip import IP

            env.tcp.bind = [IP.from_string(self.listen_ip)]
        for key, value in self.env.items():
            section, name = key.split('.', 1)
            setattr(getattr(env, section), name, value)
        env.api.snapshot_initial() if hasattr(env.api, 'snapshot_initial') else None
        # what application/server.py switches on before it builds the reactor (the simulation enters below it)
        if env.cache.attributes:
            from exabgp.bgp.message.update.attribute import Attribute

            Attribute.caching = env.cache.attributes

        import exabgp.reactor.network.tcp as tcp
        import exabgp.reactor.network.connection as connection
        import exabgp.reactor.listener as listener
        import exabgp.reactor.api.processes as processes
        import exabgp.reactor.daemon as daemon
        import exabgp.configuration.configuration as cconf
        import exabgp.configuration.core.parser as cparser

        fake_socket = FakeSocketModule(self.net)
        tcp.socket = fake_socket
        listener.socket = fake_socket
        fsel = FakeSelectModule()
        tcp.select = fsel
        connection.select = fsel
        processes.subprocess = FakeSubprocess(self.procs)
        processes.os = FakeOs(self.procs)
        processes.fcntl = FakeFcntl()
        processes.Thread = FakeThread
        daemon.Daemon.drop_privileges = lambda self_: True
        daemon.Daemon.daemonise = lambda self_: None
        daemon.Daemon.savepid = lambda self_: True
        daemon.Daemon.removepid = lambda self_: None
        cconf.os = _FakeOsForConfig(self.fs)
        cparser.open = self.fs.open

        # pass-through recorders
        from exabgp.bgp.fsm import FSM

        world = self
        orig_change = FSM.change

        def change(fsm_self, state):
            peer = fsm_self.peer
            frm = fsm_self.name()
            r = orig_change(fsm_self, state)
            to = fsm_self.name()
            name = str(peer.neighbor.session.peer_address)
            proto = peer.proto
            io_ = proto.connection.io if proto is not None and proto.connection is not None else None
            world.fsm_log.append((world._seq + 1, world.loop.mono, name, frm, to, id(peer)))
            fd = io_._fd if io_ is not None and hasattr(io_, '_fd') else -1
            world.rec('fsm', peer=name, frm=frm, to=to, fd=fd)
            for cb in world.fsm_hooks:
                cb(name, frm, to, fd, peer)
            return r

        FSM.change = change

        from exabgp.reactor.api import API

        orig_process = API.process

        def process(api_self, reactor, service, command):
            world.api_log.append((world._seq + 1, world.loop.mono, service, command))
            world.rec('api-process', service=service, command=command if len(command) < 300 else command[:300] + '..')
            return orig_process(api_self, reactor, service, command)

        API.process = process

        from exabgp.configuration.configuration import Configuration

        orig_reload = Configuration.reload
        orig_inner = Configuration._reload
        inner_exc: dict = {}

        def _reload(conf_self):
            # pass-through: which exception type (if any) the parser let escape into reload()'s catch-all
            inner_exc.clear()
            try:
                return orig_inner(conf_self)
            except BaseException as exc:
                inner_exc['type'] = type(exc).__name__
                raise

        Configuration._reload = _reload

        def reload(conf_self):
            before = sorted(conf_self.neighbors.keys())
            try:
                r = orig_reload(conf_self)
            except BaseException as exc:
                world.reload_log.append({'mono': world.loop.mono, 'result': f'raise {type(exc).__name__}', 'before': before})
                world.rec('reload', result=f'raise {type(exc).__name__}: {exc}')
                raise
            after = sorted(conf_self.neighbors.keys())
            world.reload_log.append({'mono': world.loop.mono, 'result': r is True, 'before': before, 'after': after, 'error': '' if r is True else str(conf_self.error)[:300], 'exc': inner_exc.get('type')})
            world.rec('reload', result=r is True, n_before=len(before), n_after=len(after))
            return r

        Configuration.reload = reload

        # when each received message is handed to the protocol layer (pass-through recorder)
        from exabgp.reactor.network.connection import Connection

        orig_reader = Connection.reader_async

        async def reader_async(conn_self):
            fd = conn_self.io._fd if conn_self.io is not None and hasattr(conn_self.io, '_fd') else -1
            r = await orig_reader(conn_self)
            world.read_log.setdefault(fd, []).append((world.loop.mono, r[0], r[1], r[4] is not None))
            return r

        Connection.reader_async = reader_async

        # liveness of update generators (pending() is already false while one is half consumed)
        from exabgp.reactor.protocol import Protocol

        orig_gen = Protocol.new_update_generator

        async def new_update_generator(proto_self, include_withdraw):
            world.live_generators += 1
            world.generators_started += 1
            try:
                async for item in orig_gen(proto_self, include_withdraw):
                    yield item
            finally:
                world.live_generators -= 1

        Protocol.new_update_generator = new_update_generator

        # error / critical log lines are an observation (e.g. 'peer.exception.unhandled')
        from exabgp.logger import log as exalog

        def mk(level):
            def logfn(message, source='', level=level):
                try:
                    text = message() if callable(message) else str(message)
                except Exception as exc:  # noqa: BLE001
                    text = f'<unrenderable log message: {exc}>'
                world.logs.append((world.loop.mono, level, source, text))
                world.rec('log', level=level, source=source, text=text[:300])

            return logfn

        exalog.error = mk('ERROR')
        exalog.critical = mk('CRITICAL')

    # -------------------------------------------------------------------- boot

    def boot(self, config_text: str, as_file: bool = True) -> None:
        self.patch()
        from exabgp.configuration.configuration import Configuration
        from exabgp.reactor.loop import Reactor

        if as_file:
            self.fs.files[self.CONFIG_PATH] = config_text
            self.configuration = Configuration([self.CONFIG_PATH])
        else:
            self.configuration = Configuration([config_text], text=True)
        self.reactor = Reactor(self.configuration)

    def set_config(self, text: str) -> None:
        self.fs.files[self.CONFIG_PATH] = text

    def signal(self, name: str) -> None:
        """what a signal handler does: set the flag the main loop polls"""
        sig = self.reactor.signal
        self.rec('signal', name=name)
        if name == 'SHUTDOWN':
            self._shutdown_requested = True
        sig.received = getattr(sig, name)
        sig.number = 0

    def at(self, when: float, fn: Callable[[], None]) -> None:
        self.loop.env_at(when, fn)

    def after(self, delay: float, fn: Callable[[], None]) -> None:
        self.loop.env_after(delay, fn)

    # --------------------------------------------------------------------- run

    def run(self, until: float, shutdown_grace: float = 2.0) -> None:
        """Run the reactor until virtual time `until`, then request SHUTDOWN and let it finish."""
        asyncio.set_event_loop(self.loop)

        def stop() -> None:
            for fn in self.at_end:
                fn()
            self.rec('sim-shutdown-request')
            self.signal('SHUTDOWN')

        self.loop.env_at(until, stop)
        self.loop.max_time = max(self.loop.max_time, until + 60.0)

        async def main():
            return await self.reactor.run_async()

        try:
            self.exit_code = self.loop.run_until_complete(main())
            self.ended = 'exit'
            self.early_exit = self.loop.mono < until - 1e-6 and not self._shutdown_requested
        except SimCap as exc:
            self.ended = f'cap: {exc}'
        except SimDeadlock as exc:
            self.ended = f'deadlock: {exc}'
        except HarnessError:
            self._finish()
            raise
        except BaseException as exc:  # the reactor itself crashed
            import traceback

            self.ended = 'crash'
            self.crash = ''.join(traceback.format_exception(type(exc), exc, exc.__traceback__))[-3000:]
        self.rec('sim-end', ended=self.ended.split(':')[0], code=str(self.exit_code))
        self._finish()

    def _finish(self) -> None:
        """cancel what is left, close the loop, give the real clocks back"""
        try:
            for t in asyncio.all_tasks(self.loop):
                t.cancel()
            self.loop._ready.clear()
            self.loop._scheduled.clear()
            if not self.loop.is_closed():
                self.loop.close()
        except Exception:
            pass
        try:
            asyncio.set_event_loop(None)
        except Exception:
            pass
        unpatch_globals()

    # ------------------------------------------------------------------ helpers

    def peers(self) -> dict:
        return self.reactor._peers

    def peer_for(self, ip: str):
        for p in self.reactor._peers.values():
            if str(p.neighbor.session.peer_address) == ip:
                return p
        return None

    def quiescent(self) -> bool:
        r = self.reactor
        if self.live_generators > 0 or self.net.inflight > 0:
            return False
        if r.asynchronous._async:
            return False
        if r.processes._command_queue:
            return False
        for q in r.processes._write_queue.values():
            if q:
                return False
        for p in r._peers.values():
            if getattr(p.neighbor, 'range_size', 1) > 1:
                continue  # the definition of an address range never has a session of its own: its queue is never sent
            if p.proto is None:
                continue  # no transport at all (a passive neighbor whose peer is away, a peer between two attempts): nothing can drain
            if p.neighbor.rib is not None and p.neighbor.rib.outgoing.pending():
                return False
        for h in self.procs.helpers.values():
            if h.out:
                return False
        return True
