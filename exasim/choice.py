"""Counter-based deterministic choices.

Every run-time choice of the simulator is a pure function of (micro_seed, label):
no stream state, so removing one plan step during minimisation never reshuffles
the choices that belong to another step.
"""

from __future__ import annotations

import hashlib
import struct


def h64(seed: int, *label) -> int:
    m = hashlib.blake2b(digest_size=8)
    m.update(repr((seed, label)).encode())
    return struct.unpack('>Q', m.digest())[0]


class Chooser:
    __slots__ = ('seed',)

    def __init__(self, seed: int) -> None:
        self.seed = seed

    def u64(self, *label) -> int:
        return h64(self.seed, *label)

    def rand(self, *label) -> float:
        return h64(self.seed, *label) / 18446744073709551616.0

    def randint(self, lo: int, hi: int, *label) -> int:
        """inclusive bounds"""
        if hi <= lo:
            return lo
        return lo + h64(self.seed, *label) % (hi - lo + 1)

    def pick(self, seq, *label):
        return seq[h64(self.seed, *label) % len(seq)]

    def chance(self, p: float, *label) -> bool:
        return self.rand(*label) < p

    def sub(self, *label) -> 'Chooser':
        return Chooser(h64(self.seed, 'sub', *label))


class Rng:
    """Stream PRNG used only for *plan generation* (a plan is then fixed data)."""

    def __init__(self, seed: int) -> None:
        self.c = Chooser(seed)
        self.n = 0

    def _next(self) -> int:
        self.n += 1
        return self.c.u64('rng', self.n)

    def random(self) -> float:
        return self._next() / 18446744073709551616.0

    def randint(self, lo: int, hi: int) -> int:
        if hi <= lo:
            return lo
        return lo + self._next() % (hi - lo + 1)

    def choice(self, seq):
        return seq[self._next() % len(seq)]

    def chance(self, p: float) -> bool:
        return self.random() < p

    def sample(self, seq, k: int):
        pool = list(seq)
        out = []
        for _ in range(min(k, len(pool))):
            out.append(pool.pop(self._next() % len(pool)))
        return out

    def shuffle(self, lst) -> None:
        for i in range(len(lst) - 1, 0, -1):
            j = self._next() % (i + 1)
            lst[i], lst[j] = lst[j], lst[i]

    def bytes(self, n: int) -> bytes:
        out = bytearray()
        while len(out) < n:
            out += struct.pack('>Q', self._next())
        return bytes(out[:n])

    def fork(self, *label) -> 'Rng':
        return Rng(h64(self.c.seed, 'fork', self.n, *label))
