"""Driver: seeded search over plans, fork-per-run workers, known findings, minimisation,
replay files, evidence."""

from __future__ import annotations

import importlib
import json
import os
import queue
import re
import subprocess
import sys
import threading
import time

VERIF = os.path.dirname(os.path.dirname(os.path.abspath(__file__)))
PYTHON = '/venv/bin/python' if os.path.exists('/venv/bin/python') else sys.executable
OUT = os.environ.get('VERIF_OUT', VERIF)  # evidence/ and replays/ go here (mutant trials use a scratch directory)
NWORKERS = int(os.environ.get('EXASIM_WORKERS', '16'))
HASHSEEDS = 4

REAL_STUB = {
    'real': [
        'Reactor main loop, Peer FSM walk, Protocol, Connection/Incoming/Outgoing, Listener',
        'FSM, ReceiveTimer, SendTimer, KA, Delay',
        'OutgoingRIB, IncomingRIB, Cache, Route, Neighbor',
        'all message/attribute/NLRI/capability codecs, Negotiated',
        'Processes (line reassembly, write queue, acks), API dispatchers and command handlers, ASYNC',
        'Configuration parser, reload/rollback/commit',
        'Response JSON/Text encoders',
        'asyncio Task/Future/wait_for/sleep/BaseEventLoop._run_once (CPython)',
    ],
    'simulated': [
        'kernel TCP (byte streams, segmentation, latency, windows, FIN/RST, connect outcomes)',
        'pipes to helper processes, helper processes, configuration file system',
        'wall and monotonic clocks, uuid, pid, hostname',
        'remote BGP speakers (reference codec, never ExaBGP code)',
    ],
    'stubbed_off': ['Daemon.daemonise/drop_privileges/savepid', 'logging back-ends', 'CLI named pipe / unix socket'],
}


class Worker:
    def __init__(self, hashseed: int) -> None:
        self.hashseed = hashseed
        env = dict(os.environ)
        env['PYTHONHASHSEED'] = str(hashseed)
        env['PYTHONPATH'] = VERIF
        env.pop('PYTHONSTARTUP', None)
        self.p = subprocess.Popen(
            [PYTHON, '-u', '-m', 'exasim.batch'], cwd=VERIF, env=env, stdin=subprocess.PIPE, stdout=subprocess.PIPE, stderr=subprocess.DEVNULL, text=True
        )

    def call(self, req: dict) -> dict:
        try:
            self.p.stdin.write(json.dumps(req) + '\n')
            self.p.stdin.flush()
            line = self.p.stdout.readline()
            if not line:
                return {'ok': False, 'error': 'worker died', 'trace': ''}
            return json.loads(line)
        except Exception as exc:
            return {'ok': False, 'error': f'worker io: {exc}', 'trace': ''}

    def close(self) -> None:
        try:
            self.p.stdin.write('{"op": "quit"}\n')
            self.p.stdin.flush()
        except Exception:
            pass
        try:
            self.p.wait(timeout=5)
        except Exception:
            self.p.kill()


class Pool:
    """NWORKERS worker processes; worker w runs under PYTHONHASHSEED = w % HASHSEEDS."""

    def __init__(self, n: int = NWORKERS) -> None:
        self.n = n
        self.queues = [queue.Queue() for _ in range(HASHSEEDS)]
        self.results: queue.Queue = queue.Queue()
        self.workers = [Worker(w % HASHSEEDS) for w in range(n)]
        self.threads = []
        self.stop = False
        self.outstanding = 0
        for w in self.workers:
            t = threading.Thread(target=self._loop, args=(w,), daemon=True)
            t.start()
            self.threads.append(t)

    def _loop(self, w: Worker) -> None:
        q = self.queues[w.hashseed]
        while not self.stop:
            try:
                req = q.get(timeout=0.2)
            except queue.Empty:
                continue
            if req is None:
                break
            res = w.call(req)
            if not res.get('ok') and res.get('error', '').startswith('worker'):
                # the worker process is gone (its wall-clock watchdog on a loaded machine, the OOM killer): start another and
                # give the same request one more try; a second death is reported as a harness error
                w.close()
                nw = Worker(w.hashseed)
                w.p = nw.p
                res = w.call(req)
                if not res.get('ok') and res.get('error', '').startswith('worker'):
                    w.close()
                    nw = Worker(w.hashseed)
                    w.p = nw.p
            res['req'] = {k: v for k, v in req.items() if k != 'plan'}
            self.results.put(res)

    def submit(self, req: dict, hashseed: int) -> None:
        self.queues[hashseed % HASHSEEDS].put(req)

    def map(self, reqs: list[tuple[dict, int]], deadline: float | None = None):
        """yields results as they complete"""
        self.outstanding = 0
        for i, (req, hs) in enumerate(reqs):
            req['id'] = i
            self.submit(req, hs)
            self.outstanding += 1
        while self.outstanding > 0:
            try:
                res = self.results.get(timeout=1.0)
            except queue.Empty:
                if deadline is not None and time.time() > deadline + 150:
                    break
                continue
            self.outstanding -= 1
            yield res

    def drain(self) -> None:
        for q in self.queues:
            while True:
                try:
                    q.get_nowait()
                    self.outstanding -= 1
                except queue.Empty:
                    break

    def close(self) -> None:
        self.stop = True
        self.drain()
        for w in self.workers:
            w.close()


# ------------------------------------------------------------------ known findings


def load_known(prop: str) -> list[dict]:
    path = os.path.join(VERIF, 'known_findings.jsonl')
    out = []
    if os.path.exists(path):
        for line in open(path):
            line = line.strip()
            if not line or line.startswith('#'):
                continue
            rec = json.loads(line)
            if rec.get('property') == prop:
                out.append(rec)
    return out


def match_known(v: dict, known: list[dict]) -> dict | None:
    for k in known:
        if k.get('status') != 'known':
            continue
        if k.get('class') != v.get('class'):
            continue
        ok = True
        facts = v.get('facts', {})
        for key, want in (k.get('match') or {}).items():
            have = facts.get(key)
            if isinstance(want, str) and want.startswith('re:'):
                if have is None or not re.search(want[3:], str(have)):
                    ok = False
                    break
            elif have != want:
                ok = False
                break
        if ok:
            return k
    return None


# ------------------------------------------------------------------ minimisation


def generic_candidates(plan: dict, list_keys: list[str]):
    """ddmin-style candidates: drop halves, quarters, then single elements of each list"""
    for key in list_keys:
        items = plan.get(key)
        if not isinstance(items, list) or not items:
            continue
        n = len(items)
        chunk = n
        seen = set()
        while chunk >= 1:
            for start in range(0, n, chunk):
                keep = items[:start] + items[start + chunk :]
                sig = json.dumps(keep, sort_keys=True, default=str)
                if len(keep) < n and sig not in seen:
                    seen.add(sig)
                    c = json.loads(json.dumps(plan))
                    c[key] = keep
                    yield c
            chunk //= 2


def minimise(pool: Pool, mod, plan: dict, vclass: str, budget_s: float = 90.0, max_runs: int = 400) -> tuple[dict, int]:
    start = time.time()
    runs = 0
    improved = True
    name = mod.__name__.split('.')[-1]
    hs = plan.get('hashseed', 0)
    while improved and time.time() - start < budget_s and runs < max_runs:
        improved = False
        if hasattr(mod, 'shrink_candidates'):
            cands = list(mod.shrink_candidates(plan))
        else:
            cands = list(generic_candidates(plan, getattr(mod, 'SHRINK_LISTS', ['steps'])))
        cands = cands[:64]
        if not cands:
            break
        reqs = [({'op': 'run', 'scenario': name, 'plan': c, 'mode': 'inproc'}, hs) for c in cands]
        results = {}
        for res in pool.map(reqs):
            runs += 1
            results[res.get('req_id')] = res
        for i, c in enumerate(cands):
            res = results.get(i)
            if res and res.get('ok') and any(v['class'] == vclass for v in res.get('violations', [])):
                plan = c
                improved = True
                break
    return plan, runs


# ------------------------------------------------------------------ evidence


def write_evidence(mod, tier: str, seed: int, agg: dict, wall: float) -> str:
    os.makedirs(os.path.join(OUT, 'evidence'), exist_ok=True)
    path = os.path.join(OUT, 'evidence', f'{mod.ID}.json')
    runs = max(1, agg['evaluations'])
    ev = {
        'property_id': mod.ID,
        'tier': tier,
        'seed': seed,
        'level': getattr(mod, 'LEVEL', 'exploration'),
        'coverage': {
            'evaluations': agg['evaluations'],
            'distinct_nontrivial': len(agg['signatures']),
            'rule': getattr(mod, 'RULE', ''),
            'samples': agg['samples'][:3] or ([agg['fallback_sample']] if 'fallback_sample' in agg else []),
            'runs_per_hour': int(agg['evaluations'] / max(wall, 1e-6) * 3600),
            'simulated_seconds': round(agg['sim_s'], 1),
            'loop_passes': agg['passes'],
            'faults_fired': agg['faults'],
            'probes': agg['probes'],
            'grid_cells': agg.get('grid_cells', 0),
            'hashseeds': sorted(agg['hashseeds']),
            'harness_errors': agg['harness_errors'],
            'known_findings_seen': agg['known_seen'],
            'real_vs_stub': REAL_STUB,
            'workers': NWORKERS,
            'exhaustive': False,
        },
        'assumptions': list(getattr(mod, 'ASSUMPTIONS', [])),
        'wall_s': round(wall, 2),
        'violations': agg['violations'],
    }
    with open(path, 'w') as f:
        json.dump(ev, f, indent=1, sort_keys=True, default=str)
        f.write('\n')
    return path


# ------------------------------------------------------------------ main entry


def load(prop: str):
    name = prop.lower()
    return importlib.import_module(f'scenarios.{name}'), name


def run_check(prop: str, tier: str, seed: int, budget: float | None = None, count: int | None = None) -> int:
    t0 = time.time()
    mod, name = load(prop)
    known = load_known(mod.ID)
    n_runs, wall_budget = mod.counts(tier)
    if count is not None:
        n_runs = count
    if budget is not None:
        wall_budget = budget
    deadline = t0 + wall_budget
    print(f'# {mod.ID} tier={tier} VERIF_SEED={seed} runs={n_runs} wall_budget={wall_budget}s workers={NWORKERS}', flush=True)

    pool = Pool()
    agg = {
        'evaluations': 0, 'signatures': set(), 'samples': [], 'sim_s': 0.0, 'passes': 0, 'faults': {}, 'probes': {},
        'hashseeds': set(), 'harness_errors': 0, 'known_seen': {}, 'violations': 0, 'grid_cells': 0,
    }  # fmt: skip
    reqs = []
    idx = 0
    if hasattr(mod, 'grid'):
        for plan in mod.grid(tier):
            hs = idx % HASHSEEDS
            plan['hashseed'] = hs
            reqs.append(({'op': 'run', 'scenario': name, 'plan': plan, 'want_plan': idx < 2, 'grid': True}, hs))
            idx += 1
        agg['grid_cells'] = len(reqs)
    for i in range(n_runs):
        hs = i % HASHSEEDS
        reqs.append(({'op': 'gen', 'scenario': name, 'seed': seed, 'index': i, 'tier': tier, 'want_plan': i < 2}, hs))

    new_violations = []  # (violation, plan)
    errors = []
    cut = False
    for res in pool.map(reqs, deadline):
        if not res.get('ok'):
            agg['harness_errors'] += 1
            errors.append(res)
            continue
        agg['evaluations'] += 1
        agg['sim_s'] += res.get('sim_s', 0.0)
        agg['passes'] += res.get('passes', 0)
        for k, v in res.get('faults', {}).items():
            agg['faults'][k] = agg['faults'].get(k, 0) + v
        for k, v in res.get('probes', {}).items():
            agg['probes'][k] = agg['probes'].get(k, 0) + v
        if res.get('nontrivial', True):
            agg['signatures'].add(res.get('signature', ''))
        if res.get('plan') is not None and len(agg['samples']) < 3 and not res.get('violations'):
            agg['samples'].append({'plan': res['plan'], 'summary': res.get('sample', {})})
        elif res.get('plan') is not None and 'fallback_sample' not in agg:
            agg['fallback_sample'] = {'plan': res['plan'], 'summary': res.get('sample', {})}
        agg['hashseeds'].add(res['req'].get('index', res['req'].get('id', 0)) % HASHSEEDS)
        for v in res.get('violations', []):
            k = match_known(v, known)
            if k is not None:
                key = k.get('what', k.get('class'))
                agg['known_seen'][key] = agg['known_seen'].get(key, 0) + 1
            else:
                new_violations.append((v, res.get('plan')))
        if new_violations and len(new_violations) >= 3:
            pool.drain()
            cut = True
        if time.time() > deadline and not cut:
            pool.drain()
            cut = True
            print(f'# wall budget reached after {agg["evaluations"]} runs', flush=True)
    if cut:
        # collect what was already in flight: map() generator ended because of drain; fine
        pass

    status = 0
    for key, n in sorted(agg['known_seen'].items()):
        print(f'KNOWN-FINDING: property={mod.ID} {key} (seen in {n} runs)', flush=True)

    if new_violations:
        agg['violations'] = len(new_violations)
        reported = False
        tried: set[str] = set()
        for v, plan in new_violations:
            if plan is None or v['class'] in tried or len(tried) >= 3:
                continue
            tried.add(v['class'])
            try:
                plan2, nruns = minimise(pool, mod, plan, v['class'], budget_s=float(os.environ.get('EXASIM_SHRINK_S', '60')))
            except Exception as exc:  # minimisation is best effort
                plan2, nruns = plan, 0
                print(f'# minimisation failed: {exc}')

            # a violation is believed only after it reproduces in a fresh forked process
            def confirm(p, vclass=v['class']):
                fin = None
                for res in pool.map([({'op': 'run', 'scenario': name, 'plan': p, 'want_plan': True, 'mode': 'fork'}, p.get('hashseed', 0))]):
                    fin = res
                if fin and fin.get('ok'):
                    for x in fin.get('violations', []):
                        if x['class'] == vclass:
                            return fin, x
                return fin, None

            final, fv = confirm(plan2)
            if fv is None:
                plan2 = plan
                final, fv = confirm(plan)
            if fv is None:
                print(f'# HARNESS-ERROR: violation class={v["class"]} seen in-process did not reproduce in a fresh process (state leak between runs?) detail={v.get("detail", "")[:300]}', flush=True)
                agg['harness_errors'] += 1
                errors.append({'error': 'violation not reproducible in a fresh process', 'trace': json.dumps(v, default=str)[:1500]})
                continue
            if match_known(fv, known) is not None:
                continue
            os.makedirs(os.path.join(OUT, 'replays'), exist_ok=True)
            rpath = os.path.join(OUT, 'replays', f'{mod.ID}-{tier}-{seed}-{fv["class"].replace("/", "_")}.json')
            with open(rpath, 'w') as f:
                json.dump(
                    {
                        'property': mod.ID, 'scenario': name, 'seed': seed, 'hashseed': plan2.get('hashseed', 0), 'plan': plan2,
                        'violation': fv, 'digest': final.get('digest') if final else None, 'minimisation_runs': nruns,
                        'other_violations': [x[0] for x in new_violations[:6] if x[0] is not v],
                    },
                    f, indent=1, default=str,
                )  # fmt: skip
            print(f'# violation class={fv["class"]} detail={fv.get("detail", "")[:600]}', flush=True)
            print(f'VIOLATION property={mod.ID} replay={rpath}', flush=True)
            reported = True
            status = 1
            break
        if not reported:
            status = 2

    if agg['harness_errors']:
        e = errors[0]
        print(f'# HARNESS-ERROR x{agg["harness_errors"]}: {e.get("error")}\n{e.get("trace", "")[-1500:]}', flush=True)
        if status == 0 and agg['harness_errors'] > max(2, agg['evaluations'] // 50):
            status = 2
    pool.close()
    wall = time.time() - t0
    if agg['evaluations'] == 0:
        print('# no run completed', flush=True)
        return 2
    # make sure evidence is schema-valid even for tiny runs
    if len(agg['signatures']) < 2 and status == 0:
        print('# fewer than two distinct non-trivial runs: evidence would be meaningless', flush=True)
        status = 2
    path = write_evidence(mod, tier, seed, agg, wall)
    print(
        f'# {mod.ID}: runs={agg["evaluations"]} distinct={len(agg["signatures"])} sim_s={agg["sim_s"]:.0f} wall={wall:.1f}s '
        f'known={sum(agg["known_seen"].values())} new={len(new_violations)} errors={agg["harness_errors"]} evidence={path}',
        flush=True,
    )
    return status


def run_replay(path: str) -> int:
    rec = json.load(open(path))
    mod, name = load(rec['property'])
    w = Worker(rec.get('hashseed', 0) % HASHSEEDS)
    res = w.call({'op': 'run', 'scenario': name, 'plan': rec['plan'], 'want_plan': True})
    w.close()
    if not res.get('ok'):
        print(f'# HARNESS-ERROR {res.get("error")}\n{res.get("trace", "")}')
        return 2
    want = rec['violation']['class']
    got = [v for v in res.get('violations', []) if v['class'] == want]
    if got:
        same = rec.get('digest') in (None, res.get('digest'))
        print(f'# reproduced class={want} digest_match={same} detail={got[0].get("detail", "")[:800]}')
        print(f'VIOLATION property={rec["property"]} replay={path}')
        return 1
    others = [v['class'] for v in res.get('violations', [])]
    print(f'# replay ran clean for class={want} (other classes seen: {others})')
    return 0
