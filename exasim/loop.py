"""Virtual-time asyncio event loop.

SimLoop keeps CPython's BaseEventLoop._run_once, its FIFO ready queue, Task, Future,
wait_for, sleep ... untouched.  It replaces only what the outside world decides:
the clock, the selector (how long a pass takes, which environment events are due)
and the socket / fd primitives (backed by exasim.net / exasim.proc fakes).
"""

from __future__ import annotations

import asyncio
import errno
import heapq
from typing import Any, Callable


class SimCap(Exception):
    """pass / time cap exceeded: the run is cut (reported, never a verdict by itself)"""


class HarnessError(Exception):
    """an environment callback (simulator / scenario code) raised: never a verdict"""


class SimDeadlock(Exception):
    """nothing ready, nothing scheduled, no environment event left"""


class _Selector:
    def __init__(self, loop: 'SimLoop') -> None:
        self.loop = loop

    def select(self, timeout):
        return self.loop._sim_select(timeout)

    def close(self) -> None:
        pass

    def get_map(self):
        return {}


class SimLoop(asyncio.BaseEventLoop):
    def __init__(self, chooser, tick: float = 0.002, max_passes: int = 400_000, max_time: float = 900.0) -> None:
        super().__init__()
        self._selector = _Selector(self)
        self._clock_resolution = 1e-9
        self.chooser = chooser
        self.tick = tick
        self.mono = 0.0
        self.passes = 0
        self.max_passes = max_passes
        self.max_time = max_time
        self.max_pass_cost = 0.0
        self._env: list[tuple[float, int, Callable[[], None]]] = []
        self._env_seq = 0
        self._fd_readers: dict[int, tuple[Callable[..., Any], tuple]] = {}
        self.fd_readable: Callable[[int], bool] = lambda fd: False
        self.stalls: list[list[float]] = []  # [at, duration] consumed in order
        self.on_pass: Callable[[], None] | None = None
        self.exceptions: list[dict] = []
        self.set_exception_handler(self._record_exception)

    # ------------------------------------------------------------------ clock

    def time(self) -> float:
        return self.mono

    # -------------------------------------------------------- environment API

    def env_at(self, when: float, fn: Callable[[], None]) -> None:
        self._env_seq += 1
        heapq.heappush(self._env, (max(when, self.mono), self._env_seq, fn))

    def env_after(self, delay: float, fn: Callable[[], None]) -> None:
        self.env_at(self.mono + max(0.0, delay), fn)

    def env_pending(self) -> int:
        return len(self._env)

    # --------------------------------------------------------------- selector

    def _sim_select(self, timeout):
        self.passes += 1
        if self.passes > self.max_passes or self.mono > self.max_time:
            raise SimCap(f'cap passes={self.passes} mono={self.mono:.3f}')
        next_env = self._env[0][0] if self._env else None
        fd_ready = any(self.fd_readable(fd) for fd in self._fd_readers)
        if timeout == 0 or fd_ready:
            cost = self.tick * (0.5 + self.chooser.rand('pass', self.passes))
            while self.stalls and self.stalls[0][0] <= self.mono:
                cost += self.stalls.pop(0)[1]
            if cost > self.max_pass_cost:
                self.max_pass_cost = cost
            self.mono += cost
        else:
            target = None
            if timeout is not None:
                target = self.mono + timeout
            if next_env is not None and (target is None or next_env < target):
                target = next_env
            if target is None:
                raise SimDeadlock('nothing to run')
            if target > self.mono:
                self.mono = target
        due = []
        while self._env and self._env[0][0] <= self.mono:
            due.append(heapq.heappop(self._env)[2])
        return due

    def _process_events(self, event_list) -> None:
        for fn in event_list:
            try:
                fn()
            except (SimCap, SimDeadlock, HarnessError):
                raise
            except BaseException as exc:
                import traceback

                raise HarnessError(''.join(traceback.format_exception(type(exc), exc, exc.__traceback__))[-3000:]) from None
        for fd in list(self._fd_readers):
            if fd in self._fd_readers and self.fd_readable(fd):
                cb, args = self._fd_readers[fd]
                self.call_soon(cb, *args)
        if self.on_pass is not None:
            self.on_pass()

    def _write_to_self(self) -> None:
        pass

    # ------------------------------------------------------------- fd readers

    def add_reader(self, fd, callback, *args):
        if not isinstance(fd, int):
            fd = fd.fileno()
        self._fd_readers[fd] = (callback, args)

    def remove_reader(self, fd):
        if not isinstance(fd, int):
            fd = fd.fileno()
        return self._fd_readers.pop(fd, None) is not None

    def add_writer(self, fd, callback, *args):  # pragma: no cover - not used by exabgp
        raise NotImplementedError

    def remove_writer(self, fd):  # pragma: no cover
        return False

    # -------------------------------------------------------- socket coroutines

    async def sock_recv_into(self, sock, buf):
        n = sock._try_recv_into(buf)
        if n is not None:
            return n
        fut = self.create_future()
        sock._read_waiter = (fut, buf)
        try:
            return await fut
        finally:
            if sock._read_waiter is not None and sock._read_waiter[0] is fut:
                sock._read_waiter = None

    async def sock_recv(self, sock, n):
        buf = bytearray(n)
        got = await self.sock_recv_into(sock, buf)
        return bytes(buf[:got])

    async def sock_sendall(self, sock, data):
        view = memoryview(bytes(data))
        while True:
            sent = sock._try_send(view)
            view = view[sent:]
            if not len(view):
                return None
            fut = self.create_future()
            sock._write_waiter = fut
            try:
                await fut
            finally:
                if sock._write_waiter is fut:
                    sock._write_waiter = None

    async def sock_connect(self, sock, address):
        fut = self.create_future()
        sock._start_connect(address, fut)
        try:
            return await fut
        finally:
            if not fut.done() or fut.cancelled():
                sock._abort_connect()

    async def sock_accept(self, sock):  # pragma: no cover - not used by exabgp
        raise OSError(errno.ENOSYS, 'not simulated')

    # ------------------------------------------------------------------- misc

    def _record_exception(self, loop, context) -> None:
        exc = context.get('exception')
        self.exceptions.append(
            {
                'message': context.get('message', ''),
                'exception': f'{type(exc).__name__}: {exc}' if exc is not None else '',
            }
        )
