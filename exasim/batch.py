"""Batch worker: a persistent process (started with a fixed PYTHONHASHSEED) that executes plans.

Two isolation modes (see exasim.isolate for why):
  inproc - runs execute one after another in this process, exabgp's process-global state is
           restored to pristine between runs (bulk exploration);
  fork   - each run executes in a fresh forked child (confirmation of every violation,
           minimisation, replay, determinism self-test).

Protocol: one JSON object per line on stdin, one JSON object per line on stdout.
  {"op": "gen", "scenario": "c06", "seed": 1, "index": 17, "tier": "quick", "mode": "inproc"}
  {"op": "run", "scenario": "c06", "plan": {...}, "mode": "fork"}
  {"op": "quit"}
"""

from __future__ import annotations

import importlib
import json
import os
import select
import signal
import sys
import time
import traceback

_now = time.time  # the real clock, captured before any World patches the time module

sys.path.insert(0, os.path.dirname(os.path.dirname(os.path.abspath(__file__))))

RUN_WALL_TIMEOUT = float(os.environ.get('EXASIM_RUN_TIMEOUT', '120'))


def _plan_for(mod, req):
    if req['op'] == 'gen':
        from exasim.choice import Rng, h64

        rng = Rng(h64(req['seed'], mod.ID, req['index']))
        plan = mod.generate(rng, req.get('tier', 'quick'), req['index'])
    else:
        plan = req['plan']
    plan.setdefault('hashseed', int(os.environ.get('PYTHONHASHSEED', '0')))
    return plan


def _execute(mod, req) -> dict:
    try:
        plan = _plan_for(mod, req)
        res = mod.execute(plan)
        res['plan'] = plan if (res.get('violations') or req.get('want_plan')) else None
        res['ok'] = True
    except BaseException as exc:  # harness error, never a verdict
        res = {'ok': False, 'error': f'{type(exc).__name__}: {exc}', 'trace': traceback.format_exc()[-4000:]}
    return res


def _child(mod, req, wfd: int) -> None:
    try:
        import faulthandler

        faulthandler.enable()
        faulthandler.dump_traceback_later(RUN_WALL_TIMEOUT - 5, exit=True)
        res = _execute(mod, req)
        data = json.dumps(res, default=str).encode()
        with os.fdopen(wfd, 'wb') as f:
            f.write(data)
    finally:
        os._exit(0)


def run_forked(mod, req) -> dict:
    rfd, wfd = os.pipe()
    pid = os.fork()
    if pid == 0:
        os.close(rfd)
        _child(mod, req, wfd)
    os.close(wfd)
    chunks = []
    deadline = _now() + RUN_WALL_TIMEOUT
    timed_out = False
    while True:
        left = deadline - _now()
        if left <= 0:
            timed_out = True
            break
        r, _, _ = select.select([rfd], [], [], left)
        if not r:
            timed_out = True
            break
        b = os.read(rfd, 1 << 20)
        if not b:
            break
        chunks.append(b)
    os.close(rfd)
    if timed_out:
        try:
            os.kill(pid, signal.SIGKILL)
        except OSError:
            pass
    try:
        os.waitpid(pid, 0)
    except OSError:
        pass
    if timed_out:
        return {'ok': False, 'error': f'wall timeout {RUN_WALL_TIMEOUT}s', 'trace': '', 'timeout': True}
    try:
        return json.loads(b''.join(chunks))
    except Exception as exc:
        return {'ok': False, 'error': f'child died without result ({exc})', 'trace': ''}


def run_inproc(mod, req) -> dict:
    import faulthandler

    from exasim import isolate
    from exasim.world import unpatch_globals

    isolate.restore()
    faulthandler.dump_traceback_later(RUN_WALL_TIMEOUT, exit=True)
    try:
        res = _execute(mod, req)
    finally:
        faulthandler.cancel_dump_traceback_later()
        unpatch_globals()
    return res


def main() -> None:
    mods = {}
    out = sys.stdout
    snapped = False
    for line in sys.stdin:
        line = line.strip()
        if not line:
            continue
        req = json.loads(line)
        if req['op'] == 'quit':
            break
        name = req['scenario']
        try:
            if name not in mods:
                mods[name] = importlib.import_module(f'scenarios.{name}')
                from exasim.world import preload

                preload()
            if not snapped:
                from exasim import isolate

                isolate.snapshot()
                snapped = True
            if req.get('mode', 'inproc') == 'fork':
                from exasim import isolate

                isolate.restore()
                res = run_forked(mods[name], req)
            else:
                res = run_inproc(mods[name], req)
        except BaseException as exc:
            res = {'ok': False, 'error': f'{type(exc).__name__}: {exc}', 'trace': traceback.format_exc()[-4000:]}
        res['req_id'] = req.get('id')
        out.write(json.dumps(res, default=str) + '\n')
        out.flush()


if __name__ == '__main__':
    main()
