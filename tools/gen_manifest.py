#!/venv/bin/python
"""Regenerate MANIFEST.json from the scenario modules that exist."""
import glob, importlib, json, os, sys

HERE = os.path.dirname(os.path.dirname(os.path.abspath(__file__)))
sys.path.insert(0, HERE)
props = [json.loads(l) for l in open(os.path.join(HERE, 'properties.jsonl'))]
NA = {
    'C15': 'pure function of its input (codec round trip, index/hash/equality contract): no schedule, clock, fault, crash point, history or second party for a simulator to own; sweeping it is property-based testing, a different technique (DESIGN.md section 6)',
}
checks, na = [], []
for p in props:
    pid = p['id']
    path = os.path.join(HERE, 'scenarios', pid.lower() + '.py')
    if pid in NA:
        na.append({'property_id': pid, 'reason': NA[pid]})
        continue
    if not os.path.exists(path):
        na.append({'property_id': pid, 'reason': 'not claimed: its simulated check is not built yet (see DESIGN.md build order)'})
        continue
    m = importlib.import_module('scenarios.' + pid.lower())
    checks.append({
        'property_id': pid,
        'quick_cmd': f'./check {pid} --tier quick',
        'thorough_cmd': f'./check {pid} --tier thorough',
        'evidence_file': f'/verif/evidence/{pid}.json',
        'replay_cmd_template': f'./check {pid} --replay {{path}}',
        'engine': 'exasim',
        'level_claimed': {'category': m.LEVEL, 'text': m.LEVEL_TEXT, 'design_ref': getattr(m, 'DESIGN_REF', 'DESIGN.md section 5')},
        'level_note': m.LEVEL_NOTE,
        'technique': getattr(m, 'TECHNIQUE', 'deterministic simulation with fault injection: seeded search over plans (schedules x faults x inputs) run on a virtual-time asyncio loop against the real reactor, oracle over the recorded history'),
    })
manifest = {
    'version': 1,
    'setup_cmd': './check selftest --quick',
    'hooks': {
        'guard': 'EXABGP_VERIF',
        'enable': 'none needed: every seam is a module-level name replaced from /verif at run time (DESIGN.md section 10); the guard name is reserved',
        'baseline_off_cmd': 'cd /repo && /venv/bin/python -m pytest -ra -q -p no:cacheprovider --timeout=900 --continue-on-collection-errors',
        'source_commits': [],
        'add_only': True,
    },
    'engines': [{
        'name': 'exasim', 'path': '/verif/exasim',
        'serves_properties': [c['property_id'] for c in checks],
        'kind_free_text': 'deterministic simulator: virtual-time asyncio.BaseEventLoop subclass, simulated TCP/pipes/files/clocks, scripted remote speakers on an independent reference BGP codec (/verif/refbgp), counter-based seeded choices, plan minimisation, replay files',
    }],
    'checks': checks,
    'not_applicable': na,
    'notes': 'exit 0 = held (KNOWN-FINDING lines possible), 1 = VIOLATION, 2 = harness error. VERIF_SEED / VERIF_TIER / VERIF_BUDGET_S honoured. Known findings: /verif/known_findings.jsonl.',
}
json.dump(manifest, open(os.path.join(HERE, 'MANIFEST.json'), 'w'), indent=1)
print('checks', [c['property_id'] for c in checks], 'na', len(na))
