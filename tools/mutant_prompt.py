import json,sys
pid=sys.argv[1]
# usage: mutant_prompt.py <PID> [round2|round3|...]   (round k produces m(2k-1), m(2k))
rnd = int(sys.argv[2].replace('round', '')) if len(sys.argv) > 2 else 1
round2 = rnd > 1
import glob, os
avoid = ''
names = (f'm{2 * rnd - 1}', f'm{2 * rnd}')
if round2:
    prev = []
    for d in sorted(glob.glob(f'/verif/seeded/{pid}-m*')):
        try:
            prev.append('- ' + json.load(open(d + '/meta.json')).get('summary', '')[:300])
        except Exception:
            pass
    if prev:
        avoid = 'Some mutants already exist for this property; produce changes of a DIFFERENT kind, in different functions if possible. The existing ones are:\n' + '\n'.join(prev) + '\n\n'
for l in open('/verif/properties.jsonl'):
    p=json.loads(l)
    if p['id']==pid: break
wt=f'/tmp/mut-{pid}'
print(f"""You are helping evaluate a verification effort by seeding realistic bugs ("mutants") into a copy of the ExaBGP BGP speaker (pure Python).

Your private git worktree of the repository is {wt} (sources under {wt}/src/exabgp, tests under {wt}/tests). Work ONLY inside {wt}. Do NOT read, list or use anything under /verif or /repo, and do not look at any other /tmp/mut-* directory. Python is /venv/bin/python; ALWAYS run it with PYTHONPATH={wt}/src so that your worktree's code is imported (otherwise another copy is imported). There is no network.

The semantic property to break:

ID: {p['id']}
Title: {p['title']}
Statement: {p['statement']}
Quantified over: {p['quantifier']['text']}
Code anchors: {', '.join(p['anchors']['files'])}

{avoid}Task: produce TWO DIFFERENT changes ("mutants") to the ExaBGP sources, each of which breaks this property while the code still imports and the existing test suite still passes. Each must be the kind of mistake a real developer could plausibly make (an off-by-one, a wrong comparison, a dropped state reset, a reordered pair of statements, a cache key that forgets one field, an early return, two sites that each look fine alone...). IMPORTANT: prefer changes that need something SPECIFIC to manifest - a particular interleaving or timing, a fault at a particular point, a multi-step sequence of operations, an unusual but legal input, a particular negotiated configuration - NOT changes that any ordinary session would expose immediately. Keep each change small (a few lines). Do not touch tests.

For each mutant N in ({names[0][1:]}, {names[1][1:]}), create directory {wt}/OUT/mN/ containing:
  - patch.diff : `git diff` of ONLY that mutant against the unmodified worktree (must apply with `git apply` to a clean checkout of the same commit);
  - demo.py (or demo_test.py): a small self-contained program/test that FAILS (non-zero exit) with the mutant applied and PASSES (exit 0) on the unmodified code, run as `PYTHONPATH=<tree>/src /venv/bin/python demo.py` ; it may call ExaBGP internals directly (e.g. drive OutgoingRIB, Connection.reader_async with a fake socket, Protocol, the API dispatcher...) - it does not need a real network;
  - meta.json : {{"property": "{p['id']}", "summary": "...what was changed...", "needs": "...what specific schedule/fault/sequence/input/config is needed for it to manifest...", "files": [...], "tests_run": "...command and result..."}}.

Procedure per mutant: make the edit; confirm `PYTHONPATH={wt}/src /venv/bin/python -c "import exabgp.reactor.loop"` works; run the relevant unit tests and then the full suite with: cd {wt} && PYTHONPATH={wt}/src /venv/bin/python -m pytest -q -p no:cacheprovider --timeout=900 -n 6 -x -q tests 2>&1 | tail -15   (takes about 1-2 minutes; two tests are known to fail even on unmodified code ONLY under -n: tests/unit/test_util.py::TestDNS::* and tests/unit/test_gates_are_wired.py::test_a_clean_tree_exits_zero - ignore those; if -x stops on one of them rerun without -x or deselect them with --deselect). If any other test fails, change or drop the mutant. Then write demo and confirm it fails with the mutant; save patch.diff; then `git -C {wt} checkout -- .` (restore clean tree, keep OUT/ which is untracked) and confirm the demo passes on clean code. Then do the second mutant the same way. Leave the worktree clean (only OUT/ untracked) at the end.

Report briefly: for each mutant the summary, what it needs to manifest, and confirmation of (a) tests pass with mutant, (b) demo fails with mutant, (c) demo passes without.""")
