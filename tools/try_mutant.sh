#!/bin/bash
# usage: tools/try_mutant.sh <patch.diff> <PROP> [extra check args]   -- applies to /repo, runs the quick check, reverts
set -u
patch=$1; prop=$2; shift 2
cd /repo || exit 9
if [ -n "$(git status --porcelain --untracked-files=no)" ]; then echo "repo not clean"; exit 9; fi
git apply "$patch" || { echo "patch does not apply"; exit 9; }
cd /verif && ./check "$prop" "$@" 2>&1 | grep -v "^# C" | tail -4
rc=${PIPESTATUS[0]}
git -C /repo checkout -- . 
echo "exit=$rc"
