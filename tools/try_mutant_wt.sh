#!/bin/bash
# usage: tools/try_mutant_wt.sh <patch.diff> <PROP> [extra check args]
# applies the patch in a private scratch worktree of /repo (never /repo itself), runs the quick check against it with
# evidence/replays redirected to a scratch directory, removes both. Several may run at once.
set -u
patch=$(readlink -f "$1"); prop=$2; shift 2
wt=$(mktemp -d /tmp/trywt-XXXXXX); out=$(mktemp -d /tmp/tryout-XXXXXX)
rmdir $wt
git -C /repo worktree add --detach $wt HEAD >/dev/null 2>&1 || { echo "worktree failed"; exit 9; }
if ! git -C $wt apply "$patch" 2>/dev/null && ! git -C $wt apply -3 "$patch"; then echo "patch does not apply"; git -C /repo worktree remove --force $wt; rm -rf $out; exit 9; fi
cd /verif && EXABGP_SRC=$wt/src VERIF_OUT=$out ./check "$prop" "$@" 2>&1 | grep -v "^# C.. tier" | tail -4
rc=${PIPESTATUS[0]}
if [ -n "${KEEP_REPLAY:-}" ]; then mkdir -p /tmp/kept-replays; cp $out/replays/* /tmp/kept-replays/ 2>/dev/null; fi
git -C /repo worktree remove --force $wt; rm -rf $out
echo "exit=$rc"
