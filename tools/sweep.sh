#!/bin/bash
# quick tiers under other VERIF_SEED values: tools/sweep.sh <first> <last>   (evidence/replays go to $VERIF_OUT or ./sweep-out)
cd "$(dirname "$(readlink -f "$0")")/.."
export VERIF_OUT=${VERIF_OUT:-$PWD/sweep-out}
for s in $(seq $1 $2); do
  echo "== VERIF_SEED=$s"
  VERIF_SEED=$s tools/run_all.sh 2>&1 | grep -v "exit=0 .* new=0 errors=0"
done
