#!/bin/bash
# run every registered quick check and summarise
cd "$(dirname "$(readlink -f "$0")")/.."
for id in $(python3 -c "import json; print(' '.join(c['property_id'] for c in json.load(open('MANIFEST.json'))['checks']))"); do
  out=$(./check $id --tier quick 2>&1); rc=$?
  echo "$id exit=$rc $(echo "$out" | grep -c '^KNOWN-FINDING') known; $(echo "$out" | tail -1)"
  echo "$out" | grep "^VIOLATION\|HARNESS" | head -3
done
