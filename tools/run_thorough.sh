#!/bin/bash
# every registered thorough check under a wall budget (default 120 s each): tools/run_thorough.sh [budget_s]
cd "$(dirname "$(readlink -f "$0")")/.."
b=${1:-120}
for id in $(python3 -c "import json; print(' '.join(c['property_id'] for c in json.load(open('MANIFEST.json'))['checks']))"); do
  out=$(VERIF_BUDGET_S=$b ./check $id --tier thorough 2>&1); rc=$?
  echo "$id exit=$rc $(echo "$out" | grep -c '^KNOWN-FINDING') known; $(echo "$out" | tail -1)"
  echo "$out" | grep "^VIOLATION\|^# violation\|HARNESS" | head -3 | cut -c1-400
done
