#!/venv/bin/python
"""Extract a seed corpus of valid BGP message bodies from the repository's QA data (qa/encoding/*.ci 'raw' lines and
qa/decoding/*): written once to /verif/corpus/bodies.json and committed, so that checks do not depend on QA files."""
import glob, json, re
out = {}
for path in sorted(glob.glob('/repo/qa/encoding/*.ci')):
    for line in open(path, errors='replace'):
        m = re.match(r'\s*\w+:raw:([0-9A-Fa-f]{32}):([0-9A-Fa-f]{4}):([0-9A-Fa-f]{2}):([0-9A-Fa-f]*)\s*$', line)
        if m:
            t = int(m.group(3), 16)
            body = m.group(4).lower()
            if len(body) // 2 + 19 == int(m.group(2), 16):
                out.setdefault((t, body), path.split('/')[-1])
for path in sorted(glob.glob('/repo/qa/decoding/*')):
    lines = open(path).read().splitlines()
    if len(lines) >= 2 and re.fullmatch(r'[0-9A-Fa-f]+', lines[1].strip() or 'x'):
        kind = lines[0].split()[0]
        body = lines[1].strip().lower()
        if body.startswith('f' * 32):
            body = body[38:]  # a whole message: drop the 19-byte header
        if kind == 'update':
            out.setdefault((2, body), path.split('/')[-1])
        elif kind == 'open':
            out.setdefault((1, body), path.split('/')[-1])
        elif kind == 'nlri':
            # a bare bgp-ls NLRI: wrap it in MP_REACH_NLRI
            nl = bytes.fromhex(body)
            v = (16388).to_bytes(2, 'big') + bytes([71, 4, 10, 0, 0, 9, 0]) + nl
            attrs = bytes.fromhex('40010100' '400200') + bytes([0x90, 14]) + len(v).to_bytes(2, 'big') + v
            out.setdefault((2, (b'\x00\x00' + len(attrs).to_bytes(2, 'big') + attrs).hex()), path.split('/')[-1])
items = [{'type': t, 'body': b, 'source': s} for (t, b), s in sorted(out.items(), key=lambda kv: (kv[1], kv[0]))]
json.dump(items, open('/verif/corpus/bodies.json', 'w'), indent=0)
print(len(items), 'bodies;', sum(1 for i in items if i['type'] == 2), 'updates;', len({i['source'] for i in items}), 'sources')
