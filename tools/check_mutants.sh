#!/bin/bash
# re-validates every seeded mutant against the current /repo HEAD: the patch applies (in a private scratch worktree, /repo itself is not
# touched) and the property's quick check reports a VIOLATION; writes seeded/STATUS.txt.   usage: tools/check_mutants.sh [id-prefix]
cd "$(dirname "$(readlink -f "$0")")/.."
out=seeded/STATUS.txt; [ -n "${1:-}" ] && out=/dev/null || : > $out
wt=$(mktemp -d /tmp/mutwt-XXXXXX); rmdir $wt; scratch=$(mktemp -d /tmp/mutout-XXXXXX)
git -C /repo worktree add --detach $wt HEAD >/dev/null 2>&1 || { echo "worktree failed"; exit 9; }
trap 'git -C /repo worktree remove --force $wt; rm -rf $scratch' EXIT
for d in seeded/${1:-}*/; do
  id=$(basename $d); prop=${id%%-*}
  cw=$(python3 -c "import json,sys; print(json.load(open('$d/meta.json')).get('check_with',''))" 2>/dev/null); [ -n "$cw" ] && prop=$cw
  [ -f $d/patch.diff ] || continue
  if ! git -C $wt apply --check $PWD/$d/patch.diff 2>/dev/null; then echo "$id patch-does-not-apply" | tee -a $out; continue; fi
  git -C $wt apply $PWD/$d/patch.diff
  res=$(EXABGP_SRC=$wt/src VERIF_OUT=$scratch ./check $prop --tier quick 2>&1); rc=$?
  git -C $wt checkout -- .
  cls=$(echo "$res" | grep "^# violation class=" | head -1 | sed 's/^# violation class=\([^ ]*\).*/\1/')
  echo "$id exit=$rc $cls" | tee -a $out
done
