#!/bin/bash
# re-validates every seeded mutant against the current /repo: patch applies, the property's quick check reports a VIOLATION; writes seeded/STATUS.txt
cd "$(dirname "$(readlink -f "$0")")/.."
out=seeded/STATUS.txt; : > $out
for d in seeded/*/; do
  id=$(basename $d); prop=${id%%-*}
  [ -f $d/patch.diff ] || continue
  if [ -n "$(git -C /repo status --porcelain --untracked-files=no)" ]; then echo "repo not clean"; exit 9; fi
  if ! git -C /repo apply --check $PWD/$d/patch.diff 2>/dev/null; then echo "$id patch-does-not-apply" | tee -a $out; continue; fi
  git -C /repo apply $PWD/$d/patch.diff
  res=$(./check $prop --tier quick 2>&1); rc=$?
  git -C /repo checkout -- .
  cls=$(echo "$res" | grep "^# violation class=" | head -1 | sed 's/^# violation class=\([^ ]*\).*/\1/')
  echo "$id exit=$rc $cls" | tee -a $out
done
