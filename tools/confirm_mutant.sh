#!/bin/bash
# usage: tools/confirm_mutant.sh <worktree> <mN> <PROP> <seeded-id>
# confirms in the scratch worktree: patch applies, suite passes with it, demo fails with it and passes without; then stores under /verif/seeded/<seeded-id>/
set -u
wt=$1; m=$2; prop=$3; sid=$4
out=$wt/OUT/$m
cd $wt || exit 9
git checkout -q -- . 
demo=$(ls $out/demo*.py | head -1)
PYTHONPATH=$wt/src timeout 300 /venv/bin/python $demo >/dev/null 2>&1; clean_rc=$?
git apply $out/patch.diff || { echo "patch does not apply"; exit 9; }
PYTHONPATH=$wt/src timeout 300 /venv/bin/python $demo >/dev/null 2>&1; mut_rc=$?
suite=$(PYTHONPATH=$wt/src timeout 1200 /venv/bin/python -m pytest -q -p no:cacheprovider --timeout=900 -n 12 tests --deselect tests/unit/test_gates_are_wired.py::test_a_clean_tree_exits_zero --deselect tests/unit/test_util.py 2>&1 | tail -1)
git checkout -q -- .
rm -f $wt/compat_corpus.py
echo "$sid: demo clean_rc=$clean_rc mutant_rc=$mut_rc suite: $suite"
if [ $clean_rc -eq 0 ] && [ $mut_rc -ne 0 ] && echo "$suite" | grep -q "passed" && ! echo "$suite" | grep -q "failed"; then
  mkdir -p /verif/seeded/$sid
  cp $out/patch.diff /verif/seeded/$sid/patch.diff
  cp $demo /verif/seeded/$sid/
  python3 - "$out/meta.json" "/verif/seeded/$sid/meta.json" "$prop" "$suite" <<'PY'
import json,sys
src,dst,prop,suite=sys.argv[1:5]
try: m=json.load(open(src))
except Exception: m={}
m['property']=prop
m['confirmed']={'demo_passes_on_clean_tree':True,'demo_fails_with_mutant':True,'suite_with_mutant':suite,'how':'tools/confirm_mutant.sh in a scratch git worktree of /repo (removed afterwards)'}
json.dump(m,open(dst,'w'),indent=1)
PY
  echo "stored /verif/seeded/$sid"
else
  echo "NOT CONFIRMED $sid"
fi
