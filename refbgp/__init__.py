"""Reference BGP codec written from the RFCs, independent of ExaBGP (struct + ipaddress only).

Decoder: used on everything ExaBGP emits.  Builder: used to produce well-formed messages and
precisely malformed ones.
"""

from .wire import *  # noqa: F401,F403
