"""Reference BGP wire codec (RFC 4271, 4760, 6793, 7911, 8277, 4364, 4659, 8950, 5492, 9072,
2918, 7313, 4724, 8092, 4360, 1997, 4456, 7311).  No ExaBGP import, ever."""

from __future__ import annotations

import ipaddress
import struct

MARKER = b'\xff' * 16
OPEN, UPDATE, NOTIFICATION, KEEPALIVE, ROUTE_REFRESH, OPERATIONAL = 1, 2, 3, 4, 5, 6
TYPE_NAMES = {1: 'OPEN', 2: 'UPDATE', 3: 'NOTIFICATION', 4: 'KEEPALIVE', 5: 'ROUTE_REFRESH', 6: 'OPERATIONAL'}
AS_TRANS = 23456

AFI_IPV4, AFI_IPV6, AFI_L2VPN, AFI_BGPLS = 1, 2, 25, 16388
SAFI_UNICAST, SAFI_MULTICAST, SAFI_MPLS, SAFI_VPLS, SAFI_EVPN, SAFI_VPN, SAFI_FLOW, SAFI_FLOW_VPN = 1, 2, 4, 65, 70, 128, 133, 134


class RefError(Exception):
    """the bytes are not well-formed per the RFCs (where, what)"""


# --------------------------------------------------------------------------- framing


def message(mtype: int, body: bytes = b'', length: int | None = None, marker: bytes = MARKER) -> bytes:
    n = 19 + len(body) if length is None else length
    return marker + struct.pack('!HB', n, mtype) + body


def keepalive() -> bytes:
    return message(KEEPALIVE)


def notification(code: int, subcode: int, data: bytes = b'') -> bytes:
    return message(NOTIFICATION, bytes([code, subcode]) + data)


def route_refresh(afi: int, safi: int, subtype: int = 0) -> bytes:
    return message(ROUTE_REFRESH, struct.pack('!HBB', afi, subtype, safi))


# per-type length bounds of RFC 4271 4.x / RFC 2918 / RFC 7313
def type_length_ok(mtype: int, length: int) -> bool:
    if mtype == OPEN:
        return length >= 29
    if mtype == UPDATE:
        return length >= 23
    if mtype == NOTIFICATION:
        return length >= 21
    if mtype == KEEPALIVE:
        return length == 19
    if mtype == ROUTE_REFRESH:
        return length == 23
    return length >= 19


def header_fault(header: bytes, max_size: int) -> tuple[int, int] | None:
    """Reference verdict on a 19-byte header: None if acceptable else (code, subcode)."""
    if header[:16] != MARKER:
        return (1, 1)
    length, mtype = struct.unpack('!HB', header[16:19])
    if length < 19 or length > max_size:
        return (1, 2)
    if mtype not in (1, 2, 3, 4, 5, 6):
        return (1, 3)
    if not type_length_ok(mtype, length):
        return (1, 2)
    return None


class Framer:
    """Incremental reference framing of a received byte stream."""

    def __init__(self, max_size: int = 4096) -> None:
        self.buf = bytearray()
        self.max_size = max_size
        self.fault: tuple[int, int] | None = None
        self.lenient = True  # the speaker accepts anything framed (it is a recorder)

    def feed(self, data: bytes) -> list[tuple[int, bytes, bytes]]:
        """returns [(type, header, body)] completed by this data"""
        out = []
        self.buf += data
        while self.fault is None and len(self.buf) >= 19:
            header = bytes(self.buf[:19])
            length, mtype = struct.unpack('!HB', header[16:19])
            if header[:16] != MARKER or length < 19:
                self.fault = (1, 1) if header[:16] != MARKER else (1, 2)
                break
            if len(self.buf) < length:
                break
            body = bytes(self.buf[19:length])
            del self.buf[:length]
            out.append((mtype, header, body))
        return out


def frame_stream(stream: bytes, max_size_fn) -> tuple[list[tuple[int, bytes, bytes]], tuple[int, int] | None, int]:
    """Reference framing of a whole stream.

    max_size_fn(index) gives the maximum length in force for message #index.
    Returns (messages, fault, offset_of_fault_or_end).  Trailing partial message is ignored.
    """
    out = []
    off = 0
    while len(stream) - off >= 19:
        header = stream[off : off + 19]
        f = header_fault(header, max_size_fn(len(out)))
        if f is not None:
            return out, f, off
        length = struct.unpack('!H', header[16:18])[0]
        if len(stream) - off < length:
            break
        out.append((header[18], header, stream[off + 19 : off + length]))
        off += length
    return out, None, off


# --------------------------------------------------------------------------- OPEN


def capability(code: int, value: bytes = b'') -> bytes:
    return bytes([code, len(value)]) + value


def cap_mp(afi: int, safi: int) -> tuple[int, bytes]:
    return (1, struct.pack('!HBB', afi, 0, safi))


def cap_refresh() -> tuple[int, bytes]:
    return (2, b'')


def cap_nexthop(entries) -> tuple[int, bytes]:
    return (5, b''.join(struct.pack('!HHH', a, s, n) for a, s, n in entries))


def cap_extmsg() -> tuple[int, bytes]:
    return (6, b'')


def cap_gr(restart_time: int = 120, flags: int = 0, fams=()) -> tuple[int, bytes]:
    v = struct.pack('!H', (flags << 12) | (restart_time & 0xFFF))
    for a, s, f in fams:
        v += struct.pack('!HBB', a, s, f)
    return (64, v)


def cap_asn4(asn: int) -> tuple[int, bytes]:
    return (65, struct.pack('!L', asn))


def cap_addpath(entries) -> tuple[int, bytes]:
    """entries: (afi, safi, mode) mode 1=receive 2=send 3=both"""
    return (69, b''.join(struct.pack('!HBB', a, s, m) for a, s, m in entries))


def cap_enh_refresh() -> tuple[int, bytes]:
    return (70, b'')


def cap_hostname(host: bytes, domain: bytes = b'') -> tuple[int, bytes]:
    return (73, bytes([len(host)]) + host + bytes([len(domain)]) + domain)


def build_open(
    asn: int,
    hold: int,
    router_id: str,
    caps: list[tuple[int, bytes]],
    version: int = 4,
    one_param_per_cap: bool = True,
    extended: bool | None = None,
    raw_params: bytes | None = None,
) -> bytes:
    """OPEN message.  `asn` > 65535 goes as AS_TRANS in the fixed field.  Optional parameters use the
    RFC 9072 extended form when they do not fit the one-byte lengths (or when `extended` is True)."""
    my_as = asn if asn <= 65535 else AS_TRANS
    fixed = bytes([version]) + struct.pack('!HH', my_as, hold) + ipaddress.IPv4Address(router_id).packed
    if raw_params is not None:
        return message(OPEN, fixed + raw_params)
    if one_param_per_cap:
        plist = [capability(c, v) for c, v in caps]
    else:
        plist = [b''.join(capability(c, v) for c, v in caps)] if caps else []
    too_big = sum(2 + len(p) for p in plist) > 255 or any(len(p) > 255 for p in plist)
    use_ext = too_big if extended is None else (extended or too_big)
    if use_ext:
        body = b''.join(bytes([2]) + struct.pack('!H', len(p)) + p for p in plist)
        return message(OPEN, fixed + bytes([255, 255]) + struct.pack('!H', len(body)) + body)
    params = b''.join(bytes([2, len(p)]) + p for p in plist)
    return message(OPEN, fixed + bytes([len(params)]) + params)


def parse_open(body: bytes) -> dict:
    if len(body) < 10:
        raise RefError('OPEN shorter than 10 bytes')
    version = body[0]
    asn, hold = struct.unpack('!HH', body[1:5])
    rid = str(ipaddress.IPv4Address(body[5:9]))
    plen = body[9]
    rest = body[10:]
    ext = False
    if plen == 255 and len(rest) >= 3 and rest[0] == 255:
        ext = True
        plen = struct.unpack('!H', rest[1:3])[0]
        rest = rest[3:]
    if plen != len(rest):
        raise RefError(f'OPEN optional parameter length {plen} != {len(rest)}')
    caps: list[tuple[int, bytes]] = []
    params = []
    off = 0
    while off < len(rest):
        if ext:
            if off + 3 > len(rest):
                raise RefError('truncated extended optional parameter')
            ptype = rest[off]
            pl = struct.unpack('!H', rest[off + 1 : off + 3])[0]
            off += 3
        else:
            if off + 2 > len(rest):
                raise RefError('truncated optional parameter')
            ptype, pl = rest[off], rest[off + 1]
            off += 2
        pv = rest[off : off + pl]
        if len(pv) != pl:
            raise RefError('optional parameter overruns')
        off += pl
        params.append((ptype, pv))
        if ptype == 2:
            o = 0
            while o < len(pv):
                if o + 2 > len(pv):
                    raise RefError('truncated capability')
                c, cl = pv[o], pv[o + 1]
                cv = pv[o + 2 : o + 2 + cl]
                if len(cv) != cl:
                    raise RefError('capability overruns')
                caps.append((c, bytes(cv)))
                o += 2 + cl
    out = {'version': version, 'asn': asn, 'hold': hold, 'router_id': rid, 'caps': caps, 'params': params, 'ext': ext}
    out.update(summarise_caps(caps, asn))
    return out


def summarise_caps(caps, open_asn: int) -> dict:
    fams: list[tuple[int, int]] = []
    asn4 = None
    addpath: dict[tuple[int, int], int] = {}
    nexthop: list[tuple[int, int, int]] = []
    codes = []
    gr = None
    hostname = None
    for c, v in caps:
        codes.append(c)
        if c == 1 and len(v) == 4:
            a, _, s = struct.unpack('!HBB', v)
            if (a, s) not in fams:
                fams.append((a, s))
        elif c == 65 and len(v) == 4:
            asn4 = struct.unpack('!L', v)[0]
        elif c == 69:
            for i in range(0, len(v) - 3, 4):
                a, s, m = struct.unpack('!HBB', v[i : i + 4])
                addpath[(a, s)] = m
        elif c == 5:
            for i in range(0, len(v) - 5, 6):
                nexthop.append(struct.unpack('!HHH', v[i : i + 6]))
        elif c == 64 and len(v) >= 2:
            t = struct.unpack('!H', v[:2])[0]
            gr = {'flags': t >> 12, 'time': t & 0xFFF, 'fams': [struct.unpack('!HBB', v[i : i + 4]) for i in range(2, len(v) - 3, 4)]}
        elif c == 73 and len(v) >= 1:
            hl = v[0]
            host = v[1 : 1 + hl]
            dom = b''
            if len(v) > 1 + hl:
                dl = v[1 + hl]
                dom = v[2 + hl : 2 + hl + dl]
            hostname = (bytes(host), bytes(dom))
    return {
        'families': fams,
        'asn4': asn4,
        'true_asn': asn4 if asn4 is not None else open_asn,
        'addpath': addpath,
        'nexthop': nexthop,
        'refresh': 2 in codes,
        'enh_refresh': 70 in codes,
        'extmsg': 6 in codes,
        'gr': gr,
        'hostname': hostname,
        'codes': codes,
    }


# --------------------------------------------------------------------------- attributes

F_OPTIONAL, F_TRANSITIVE, F_PARTIAL, F_EXTLEN = 0x80, 0x40, 0x20, 0x10

A_ORIGIN, A_AS_PATH, A_NEXT_HOP, A_MED, A_LOCAL_PREF, A_ATOMIC, A_AGGREGATOR = 1, 2, 3, 4, 5, 6, 7
A_COMMUNITY, A_ORIGINATOR, A_CLUSTER, A_MP_REACH, A_MP_UNREACH, A_EXT_COMMUNITY = 8, 9, 10, 14, 15, 16
A_AS4_PATH, A_AS4_AGGREGATOR, A_PMSI, A_TUNNEL, A_AIGP, A_BGPLS, A_LARGE_COMMUNITY, A_PREFIX_SID = 17, 18, 22, 23, 26, 29, 32, 40

ATTR_FLAGS = {
    A_ORIGIN: 0x40, A_AS_PATH: 0x40, A_NEXT_HOP: 0x40, A_MED: 0x80, A_LOCAL_PREF: 0x40, A_ATOMIC: 0x40,
    A_AGGREGATOR: 0xC0, A_COMMUNITY: 0xC0, A_ORIGINATOR: 0x80, A_CLUSTER: 0x80, A_MP_REACH: 0x80,
    A_MP_UNREACH: 0x80, A_EXT_COMMUNITY: 0xC0, A_AS4_PATH: 0xC0, A_AS4_AGGREGATOR: 0xC0, A_AIGP: 0x80,
    A_LARGE_COMMUNITY: 0xC0, A_PREFIX_SID: 0xC0, A_PMSI: 0xC0, A_TUNNEL: 0xC0, A_BGPLS: 0x80,
}  # fmt: skip


def attribute(code: int, value: bytes, flags: int | None = None, extlen: bool | None = None, declared: int | None = None) -> bytes:
    f = ATTR_FLAGS.get(code, 0xC0) if flags is None else flags
    n = len(value) if declared is None else declared
    ext = (n > 255) if extlen is None else extlen
    if ext:
        return bytes([f | F_EXTLEN, code]) + struct.pack('!H', n) + value
    return bytes([f & ~F_EXTLEN, code, n & 0xFF]) + value


def split_attributes(block: bytes) -> list[tuple[int, int, bytes]]:
    out = []
    off = 0
    while off < len(block):
        if off + 3 > len(block):
            raise RefError('truncated attribute header')
        flags, code = block[off], block[off + 1]
        if flags & F_EXTLEN:
            if off + 4 > len(block):
                raise RefError('truncated attribute header')
            n = struct.unpack('!H', block[off + 2 : off + 4])[0]
            off += 4
        else:
            n = block[off + 2]
            off += 3
        v = block[off : off + n]
        if len(v) != n:
            raise RefError(f'attribute {code} length {n} overruns the block')
        off += n
        out.append((flags, code, bytes(v)))
    return out


def enc_as_path(segments, asn4: bool) -> bytes:
    """segments: [(type, [asn...])] type 1=SET 2=SEQUENCE 3=CONFED_SEQ 4=CONFED_SET"""
    out = b''
    fmt = '!L' if asn4 else '!H'
    for t, asns in segments:
        i = 0
        asns = list(asns)
        while True:
            chunk = asns[i : i + 255]
            out += bytes([t, len(chunk)]) + b''.join(struct.pack(fmt, a if asn4 or a <= 65535 else AS_TRANS) for a in chunk)
            i += 255
            if i >= len(asns):
                break
    return out


def dec_as_path(value: bytes, asn4: bool) -> list[tuple[int, list[int]]]:
    out = []
    off = 0
    w = 4 if asn4 else 2
    while off < len(value):
        if off + 2 > len(value):
            raise RefError('truncated AS_PATH segment header')
        t, n = value[off], value[off + 1]
        if t not in (1, 2, 3, 4):
            raise RefError(f'AS_PATH segment type {t}')
        off += 2
        if off + n * w > len(value):
            raise RefError('AS_PATH segment overruns')
        asns = [int.from_bytes(value[off + i * w : off + (i + 1) * w], 'big') for i in range(n)]
        off += n * w
        out.append((t, asns))
    return out


def as_path_len(segments) -> int:
    n = 0
    for t, asns in segments:
        if t == 2:
            n += len(asns)
        elif t == 1:
            n += 1
    return n


def merge_as4(as_path, as4_path):
    """RFC 6793 4.2.3 reconstruction.  Confed segments in AS4_PATH are ignored."""
    as4 = [(t, a) for t, a in as4_path if t in (1, 2)]
    if as_path_len(as_path) < as_path_len(as4):
        return [(t, list(a)) for t, a in as_path]
    keep = as_path_len(as_path) - as_path_len(as4)
    out = []
    for t, asns in as_path:
        if keep <= 0:
            break
        if t == 2:
            take = asns[:keep]
            keep -= len(take)
            out.append((t, list(take)))
        elif t == 1:
            out.append((t, list(asns)))
            keep -= 1
        else:
            out.append((t, list(asns)))
    out.extend((t, list(a)) for t, a in as4)
    # join adjacent sequences
    joined = []
    for t, a in out:
        if joined and t == 2 and joined[-1][0] == 2:
            joined[-1] = (2, joined[-1][1] + a)
        else:
            joined.append((t, a))
    return joined


# --------------------------------------------------------------------------- NLRI


def _plen_bytes(bits: int) -> int:
    return (bits + 7) // 8


def enc_prefix(prefix: str, pathid: int | None = None, labels=None, rd: bytes | None = None, withdraw_label: bool = False) -> bytes:
    net = ipaddress.ip_network(prefix, strict=False)
    bits = net.prefixlen
    body = b''
    if labels is not None:
        if withdraw_label:
            body += b'\x80\x00\x00'
            bits += 24
        else:
            for i, lab in enumerate(labels):
                v = (lab << 4) | (1 if i == len(labels) - 1 else 0)
                body += v.to_bytes(3, 'big')
                bits += 24
    if rd is not None:
        body += rd
        bits += 64
    body += net.network_address.packed[: _plen_bytes(net.prefixlen)]
    out = bytes([bits]) + body
    if pathid is not None:
        out = struct.pack('!L', pathid) + out
    return out


def enc_rd(kind: int, admin, assigned: int) -> bytes:
    if kind == 0:
        return struct.pack('!HHL', 0, admin, assigned)
    if kind == 1:
        return struct.pack('!H', 1) + ipaddress.IPv4Address(admin).packed + struct.pack('!H', assigned)
    return struct.pack('!HLH', 2, admin, assigned)


def rd_str(rd: bytes) -> str:
    kind = struct.unpack('!H', rd[:2])[0]
    if kind == 0:
        a, n = struct.unpack('!HL', rd[2:])
        return f'{a}:{n}'
    if kind == 1:
        return f'{ipaddress.IPv4Address(rd[2:6])}:{struct.unpack("!H", rd[6:])[0]}'
    if kind == 2:
        a, n = struct.unpack('!LH', rd[2:])
        return f'{a}:{n}'
    return rd.hex()


def dec_nlri(data: bytes, afi: int, safi: int, addpath: bool, withdraw: bool = False) -> list[dict]:
    """list of {afi,safi,pathid,prefix,labels,rd}"""
    out = []
    off = 0
    total = 32 if afi == AFI_IPV4 else 128
    while off < len(data):
        pathid = None
        if addpath:
            if off + 4 > len(data):
                raise RefError('truncated path identifier')
            pathid = struct.unpack('!L', data[off : off + 4])[0]
            off += 4
        if off >= len(data):
            raise RefError('truncated NLRI')
        bits = data[off]
        off += 1
        nbytes = _plen_bytes(bits)
        if off + nbytes > len(data):
            raise RefError('NLRI overruns')
        chunk = data[off : off + nbytes]
        off += nbytes
        labels: tuple | None = None
        rd = None
        if safi in (SAFI_MPLS, SAFI_VPN):
            labs = []
            while True:
                if len(chunk) < 3 or bits < 24:
                    raise RefError('truncated label stack')
                v = int.from_bytes(chunk[:3], 'big')
                chunk = chunk[3:]
                bits -= 24
                if withdraw and v == 0x800000:
                    # RFC 8277 2.4: the label field of a withdrawn route is 0x800000 and carries no meaning
                    labs.append(v >> 4)
                    break
                labs.append(v >> 4)
                if v & 1:
                    break
            labels = tuple(labs)
        if safi == SAFI_VPN:
            if len(chunk) < 8 or bits < 64:
                raise RefError('truncated route distinguisher')
            rd = rd_str(chunk[:8])
            chunk = chunk[8:]
            bits -= 64
        if bits > total:
            raise RefError(f'prefix length {bits} > {total}')
        if len(chunk) != _plen_bytes(bits):
            raise RefError('prefix bytes do not match mask')
        raw = bytes(chunk) + b'\x00' * (total // 8 - len(chunk))
        if bits % 8:
            # trailing bits beyond the mask are irrelevant (RFC 4271 4.3)
            keep = bits // 8
            mask = (0xFF << (8 - bits % 8)) & 0xFF
            raw = raw[:keep] + bytes([raw[keep] & mask]) + b'\x00' * (total // 8 - keep - 1)
        ip = ipaddress.IPv4Address(raw) if afi == AFI_IPV4 else ipaddress.IPv6Address(raw)
        out.append({'afi': afi, 'safi': safi, 'pathid': pathid, 'prefix': f'{ip}/{bits}', 'labels': labels, 'rd': rd})
    return out


def route_key(n: dict, with_labels: bool = False) -> tuple:
    k = (n['afi'], n['safi'], n['pathid'], n['prefix'], n['rd'])
    if with_labels:
        k = k + (n['labels'],)
    return k


def dec_nexthop(nh: bytes, afi: int, safi: int) -> list[str]:
    """MP_REACH next hop field -> list of addresses (global, link-local)"""
    if safi in (SAFI_VPN,):
        # RD (zero) + address, possibly twice for v6 global+link-local
        if len(nh) in (12, 24, 48):
            per = 12 if len(nh) == 12 else 24
            out = []
            for i in range(0, len(nh), per):
                a = nh[i + 8 : i + per]
                out.append(str(ipaddress.ip_address(bytes(a))))
            return out
        raise RefError(f'VPN next hop length {len(nh)}')
    if len(nh) == 4:
        return [str(ipaddress.IPv4Address(nh))]
    if len(nh) == 16:
        return [str(ipaddress.IPv6Address(nh))]
    if len(nh) == 32:
        return [str(ipaddress.IPv6Address(nh[:16])), str(ipaddress.IPv6Address(nh[16:]))]
    if len(nh) == 0 and safi in (SAFI_FLOW, SAFI_FLOW_VPN):
        return []
    raise RefError(f'next hop length {len(nh)}')


# --------------------------------------------------------------------------- UPDATE


def build_update(withdrawn: bytes = b'', attrs: bytes = b'', nlri: bytes = b'') -> bytes:
    return message(UPDATE, struct.pack('!H', len(withdrawn)) + withdrawn + struct.pack('!H', len(attrs)) + attrs + nlri)


def eor(afi: int = AFI_IPV4, safi: int = SAFI_UNICAST, mp_form: bool | None = None) -> bytes:
    if (afi, safi) == (AFI_IPV4, SAFI_UNICAST) and not mp_form:
        return build_update()
    return build_update(attrs=attribute(A_MP_UNREACH, struct.pack('!HB', afi, safi)))


def split_update(body: bytes) -> tuple[bytes, bytes, bytes]:
    if len(body) < 4:
        raise RefError('UPDATE shorter than 4 bytes')
    wl = struct.unpack('!H', body[:2])[0]
    if 2 + wl + 2 > len(body):
        raise RefError('withdrawn routes length overruns')
    withdrawn = body[2 : 2 + wl]
    al = struct.unpack('!H', body[2 + wl : 4 + wl])[0]
    if 4 + wl + al > len(body):
        raise RefError('attribute length overruns')
    attrs = body[4 + wl : 4 + wl + al]
    nlri = body[4 + wl + al :]
    return bytes(withdrawn), bytes(attrs), bytes(nlri)


class Ctx:
    """decoding context = negotiated parameters seen from the *receiver* of the bytes"""

    def __init__(self, asn4: bool = True, addpath: dict | None = None) -> None:
        self.asn4 = asn4
        self.addpath = addpath or {}  # (afi, safi) -> bool: NLRI carry path ids

    def ap(self, afi: int, safi: int) -> bool:
        return bool(self.addpath.get((afi, safi), False))


def decode_attributes(block: bytes, ctx: Ctx) -> dict:
    """canonical attribute values.  Raises RefError when malformed."""
    out: dict = {'unknown': [], 'order': [], 'raw': {}}
    seen = set()
    for flags, code, v in split_attributes(block):
        if code in seen:
            raise RefError(f'attribute {code} appears twice')
        seen.add(code)
        out['order'].append(code)
        out['raw'][code] = (flags, v)
        if code == A_ORIGIN:
            if len(v) != 1 or v[0] > 2:
                raise RefError('ORIGIN malformed')
            out['origin'] = v[0]
        elif code == A_AS_PATH:
            out['as_path'] = dec_as_path(v, ctx.asn4)
        elif code == A_AS4_PATH:
            out['as4_path'] = dec_as_path(v, True)
        elif code == A_NEXT_HOP:
            if len(v) != 4:
                raise RefError('NEXT_HOP length')
            out['next_hop'] = str(ipaddress.IPv4Address(v))
        elif code == A_MED:
            if len(v) != 4:
                raise RefError('MED length')
            out['med'] = struct.unpack('!L', v)[0]
        elif code == A_LOCAL_PREF:
            if len(v) != 4:
                raise RefError('LOCAL_PREF length')
            out['local_pref'] = struct.unpack('!L', v)[0]
        elif code == A_ATOMIC:
            if len(v) != 0:
                raise RefError('ATOMIC_AGGREGATE length')
            out['atomic'] = True
        elif code == A_AGGREGATOR:
            if len(v) == 6 and not ctx.asn4:
                out['aggregator'] = (struct.unpack('!H', v[:2])[0], str(ipaddress.IPv4Address(v[2:])))
            elif len(v) == 8 and ctx.asn4:
                out['aggregator'] = (struct.unpack('!L', v[:4])[0], str(ipaddress.IPv4Address(v[4:])))
            else:
                raise RefError('AGGREGATOR length')
        elif code == A_AS4_AGGREGATOR:
            if len(v) != 8:
                raise RefError('AS4_AGGREGATOR length')
            out['as4_aggregator'] = (struct.unpack('!L', v[:4])[0], str(ipaddress.IPv4Address(v[4:])))
        elif code == A_COMMUNITY:
            if len(v) % 4:
                raise RefError('COMMUNITIES length')
            out['communities'] = [struct.unpack('!HH', v[i : i + 4]) for i in range(0, len(v), 4)]
        elif code == A_ORIGINATOR:
            if len(v) != 4:
                raise RefError('ORIGINATOR_ID length')
            out['originator_id'] = str(ipaddress.IPv4Address(v))
        elif code == A_CLUSTER:
            if len(v) % 4:
                raise RefError('CLUSTER_LIST length')
            out['cluster_list'] = [str(ipaddress.IPv4Address(v[i : i + 4])) for i in range(0, len(v), 4)]
        elif code == A_EXT_COMMUNITY:
            if len(v) % 8:
                raise RefError('EXTENDED_COMMUNITIES length')
            out['ext_communities'] = [v[i : i + 8].hex() for i in range(0, len(v), 8)]
        elif code == A_LARGE_COMMUNITY:
            if len(v) % 12:
                raise RefError('LARGE_COMMUNITY length')
            out['large_communities'] = [struct.unpack('!LLL', v[i : i + 12]) for i in range(0, len(v), 12)]
        elif code == A_AIGP:
            if len(v) < 3:
                raise RefError('AIGP length')
            o = 0
            while o < len(v):
                if o + 3 > len(v):
                    raise RefError('AIGP TLV truncated')
                t = v[o]
                ln = struct.unpack('!H', v[o + 1 : o + 3])[0]
                if ln < 3 or o + ln > len(v):
                    raise RefError('AIGP TLV length')
                if t == 1 and 'aigp' not in out:
                    if ln != 11:
                        raise RefError('AIGP TLV 1 length')
                    out['aigp'] = struct.unpack('!Q', v[o + 3 : o + 11])[0]
                o += ln
        elif code == A_MP_REACH:
            if len(v) < 5:
                raise RefError('MP_REACH too short')
            afi, safi, nhl = struct.unpack('!HBB', v[:4])
            if 4 + nhl + 1 > len(v):
                raise RefError('MP_REACH next hop overruns')
            nh = v[4 : 4 + nhl]
            out['mp_reach'] = {'afi': afi, 'safi': safi, 'nh_raw': bytes(nh), 'reserved': v[4 + nhl], 'nlri_raw': bytes(v[5 + nhl :])}
        elif code == A_MP_UNREACH:
            if len(v) < 3:
                raise RefError('MP_UNREACH too short')
            afi, safi = struct.unpack('!HB', v[:3])
            out['mp_unreach'] = {'afi': afi, 'safi': safi, 'nlri_raw': bytes(v[3:])}
        else:
            out['unknown'].append((flags & 0xE0, code, v.hex()))
    # RFC 6793: from a NEW (4-byte) speaker AS4_PATH / AS4_AGGREGATOR are discarded; from an OLD speaker an
    # AGGREGATOR whose AS is not AS_TRANS makes both AS4_AGGREGATOR and AS4_PATH void (section 4.2.3)
    use_as4_path = not ctx.asn4 and 'as4_path' in out
    use_as4_agg = False
    if not ctx.asn4 and 'as4_aggregator' in out and 'aggregator' in out:
        if out['aggregator'][0] == AS_TRANS:
            use_as4_agg = True
        else:
            use_as4_path = False
    if 'as_path' in out:
        if use_as4_path:
            out['as_path_merged'] = merge_as4(out['as_path'], out['as4_path'])
        else:
            out['as_path_merged'] = [(t, list(a)) for t, a in out['as_path']]
    if use_as4_agg:
        out['aggregator_merged'] = out['as4_aggregator']
    elif 'aggregator' in out:
        out['aggregator_merged'] = out['aggregator']
    return out


def decode_update(body: bytes, ctx: Ctx) -> dict:
    """Reference meaning of an UPDATE body.

    returns {'announce': [ (nlri dict, next_hop list[str]) ], 'withdraw': [nlri dict],
             'attrs': canonical dict, 'eor': (afi, safi) | None}
    """
    withdrawn, attrs, nlri = split_update(body)
    a = decode_attributes(attrs, ctx)
    res: dict = {'announce': [], 'withdraw': [], 'attrs': a, 'eor': None}
    if not withdrawn and not attrs and not nlri:
        res['eor'] = (AFI_IPV4, SAFI_UNICAST)
        return res
    res['withdraw'].extend(dec_nlri(withdrawn, AFI_IPV4, SAFI_UNICAST, ctx.ap(AFI_IPV4, SAFI_UNICAST), withdraw=True))
    if nlri:
        nh = a.get('next_hop')
        for n in dec_nlri(nlri, AFI_IPV4, SAFI_UNICAST, ctx.ap(AFI_IPV4, SAFI_UNICAST)):
            res['announce'].append((n, [nh] if nh else []))
    mpu = a.get('mp_unreach')
    if mpu is not None:
        if not mpu['nlri_raw'] and not withdrawn and not nlri and a['order'] == [A_MP_UNREACH]:
            res['eor'] = (mpu['afi'], mpu['safi'])
        elif mpu['safi'] in (SAFI_UNICAST, SAFI_MULTICAST, SAFI_MPLS, SAFI_VPN) and mpu['afi'] in (AFI_IPV4, AFI_IPV6):
            res['withdraw'].extend(dec_nlri(mpu['nlri_raw'], mpu['afi'], mpu['safi'], ctx.ap(mpu['afi'], mpu['safi']), withdraw=True))
        else:
            res.setdefault('opaque_withdraw', []).append((mpu['afi'], mpu['safi'], mpu['nlri_raw'].hex()))
    mpr = a.get('mp_reach')
    if mpr is not None:
        if mpr['safi'] in (SAFI_UNICAST, SAFI_MULTICAST, SAFI_MPLS, SAFI_VPN) and mpr['afi'] in (AFI_IPV4, AFI_IPV6):
            nhs = dec_nexthop(mpr['nh_raw'], mpr['afi'], mpr['safi'])
            for n in dec_nlri(mpr['nlri_raw'], mpr['afi'], mpr['safi'], ctx.ap(mpr['afi'], mpr['safi'])):
                res['announce'].append((n, nhs))
        else:
            res.setdefault('opaque_announce', []).append((mpr['afi'], mpr['safi'], mpr['nh_raw'].hex(), mpr['nlri_raw'].hex()))
    return res


def canonical_attrs(a: dict) -> dict:
    """attribute values relevant for table comparison (no MP, no raw, no order)"""
    out = {}
    for k in ('origin', 'med', 'local_pref', 'atomic', 'originator_id', 'aigp'):
        if k in a:
            out[k] = a[k]
    if 'as_path_merged' in a:
        out['as_path'] = [(t, tuple(x)) for t, x in a['as_path_merged'] if x or t != 2]
    if 'aggregator_merged' in a:
        out['aggregator'] = tuple(a['aggregator_merged'])
    if 'communities' in a:
        out['communities'] = sorted(tuple(c) for c in a['communities'])
    if 'ext_communities' in a:
        out['ext_communities'] = sorted(a['ext_communities'])
    if 'large_communities' in a:
        out['large_communities'] = sorted(tuple(c) for c in a['large_communities'])
    if 'cluster_list' in a:
        out['cluster_list'] = list(a['cluster_list'])
    if a.get('unknown'):
        out['unknown'] = sorted(tuple(u) for u in a['unknown'])
    return out


class PeerTable:
    """What a peer holds after applying, in order, every UPDATE it received."""

    def __init__(self) -> None:
        self.routes: dict[tuple, dict] = {}
        self.eors: list[tuple[int, int]] = []
        self.updates = 0

    def apply(self, body: bytes, ctx: Ctx) -> dict:
        d = decode_update(body, ctx)
        self.updates += 1
        if d['eor'] is not None:
            self.eors.append(d['eor'])
            return d
        for n in d['withdraw']:
            self.routes.pop(route_key(n), None)
        ca = canonical_attrs(d['attrs'])
        for n, nhs in d['announce']:
            self.routes[route_key(n)] = {'next_hop': list(nhs), 'labels': n['labels'], 'attrs': ca}
        return d

    def clear(self) -> None:
        self.routes.clear()
        self.eors.clear()
