"""Reference FlowSpec codec (RFC 8955 IPv4, RFC 8956 IPv6, flow-vpn with a leading route distinguisher).

Independent of ExaBGP.  A rule is {'rd': bytes | None, 'comps': [(type, payload)]}:
  types 1, 2 (destination / source prefix):  payload = (address text, length, offset)   (offset always 0 for IPv4)
  numeric types 3-8, 10, 11, 13:              payload = [(and, lt, gt, eq, value, width)]
  bitmask types 9, 12:                        payload = [(and, not, match, value, width)]
"""

from __future__ import annotations

import ipaddress
import struct

from .wire import RefError

NUMERIC = {3, 4, 5, 6, 7, 8, 10, 11, 13}
BITMASK = {9, 12}
PREFIX = {1, 2}
MAX_TYPE = {1: 12, 2: 13}
NAMES = {1: 'destination', 2: 'source', 3: 'protocol', 4: 'port', 5: 'destination-port', 6: 'source-port', 7: 'icmp-type', 8: 'icmp-code', 9: 'tcp-flags',
         10: 'packet-length', 11: 'dscp', 12: 'fragment', 13: 'flow-label'}  # fmt: skip


def shortest_width(value: int) -> int:
    if value < 1 << 8:
        return 1
    if value < 1 << 16:
        return 2
    if value < 1 << 32:
        return 4
    return 8


def enc_prefix_comp(ctype: int, afi: int, addr: str, length: int, offset: int = 0) -> bytes:
    if afi == 1:
        raw = ipaddress.IPv4Address(addr).packed
        return bytes([ctype, length]) + raw[: (length + 7) // 8]
    raw = int(ipaddress.IPv6Address(addr))
    # RFC 8956 3.1: pattern = bits offset..length of the address, left aligned, padded to an octet
    nbits = max(0, length - offset)
    pattern = (raw << offset) & ((1 << 128) - 1)
    pb = pattern.to_bytes(16, 'big')[: (nbits + 7) // 8]
    if nbits % 8:
        pb = pb[:-1] + bytes([pb[-1] & (0xFF << (8 - nbits % 8)) & 0xFF])
    return bytes([ctype, length, offset]) + pb


def enc_ops(ctype: int, items: list, bitmask: bool) -> bytes:
    out = bytes([ctype])
    for i, it in enumerate(items):
        if bitmask:
            and_, not_, match, value, width = it
            flags = (0x02 if not_ else 0) | (0x01 if match else 0)
        else:
            and_, lt, gt, eq, value, width = it
            flags = (0x04 if lt else 0) | (0x02 if gt else 0) | (0x01 if eq else 0)
        w = width or shortest_width(value)
        op = (0x80 if i == len(items) - 1 else 0) | (0x40 if and_ else 0) | ({1: 0, 2: 1, 4: 2, 8: 3}[w] << 4) | flags
        out += bytes([op]) + value.to_bytes(w, 'big')
    return out


def enc_rule(afi: int, comps: list, rd: bytes | None = None, sort: bool = True, length_override: int | None = None) -> bytes:
    """one FlowSpec NLRI with its length prefix"""
    body = rd or b''
    for ctype, payload in sorted(comps, key=lambda c: c[0]) if sort else comps:
        if ctype in PREFIX:
            body += enc_prefix_comp(ctype, afi, *payload)
        else:
            body += enc_ops(ctype, payload, ctype in BITMASK)
    n = len(body) if length_override is None else length_override
    if n < 240:
        return bytes([n]) + body
    if n > 4095:
        raise ValueError('FlowSpec NLRI longer than 4095 bytes')
    return bytes([0xF0 | (n >> 8), n & 0xFF]) + body


def dec_rule(data: bytes, afi: int, vpn: bool) -> tuple[dict, int]:
    """-> (rule, bytes consumed).  Raises RefError for anything RFC 8955 4.2 / 8956 calls malformed."""
    if not data:
        raise RefError('empty FlowSpec NLRI')
    if data[0] >= 0xF0:
        if len(data) < 2:
            raise RefError('FlowSpec length truncated')
        n = ((data[0] & 0x0F) << 8) | data[1]
        off = 2
        if n < 240:
            raise RefError('two-byte length for a value below 240')
    else:
        n = data[0]
        off = 1
    if off + n > len(data):
        raise RefError('FlowSpec NLRI length overruns the attribute')
    body = data[off : off + n]
    rd = None
    if vpn:
        if len(body) < 8:
            raise RefError('flow-vpn NLRI without room for a route distinguisher')
        rd, body = bytes(body[:8]), body[8:]
    comps = []
    last = 0
    p = 0
    while p < len(body):
        ctype = body[p]
        p += 1
        if ctype == 0 or ctype > MAX_TYPE[afi]:
            raise RefError(f'undefined FlowSpec component type {ctype}')
        if ctype <= last:
            raise RefError('FlowSpec components out of order or repeated')
        last = ctype
        if ctype in PREFIX:
            if p >= len(body):
                raise RefError('prefix component truncated')
            length = body[p]
            p += 1
            offset = 0
            if afi == 2:
                if p >= len(body):
                    raise RefError('prefix component truncated')
                offset = body[p]
                p += 1
                if length > 128 or offset > length:
                    raise RefError('IPv6 prefix length/offset invalid')
                nb = (length - offset + 7) // 8
            else:
                if length > 32:
                    raise RefError('IPv4 prefix length above 32')
                nb = (length + 7) // 8
            if p + nb > len(body):
                raise RefError('prefix component truncated')
            raw = body[p : p + nb]
            p += nb
            if afi == 1:
                addr = str(ipaddress.IPv4Address(bytes(raw) + bytes(4 - nb)))
            else:
                pattern = int.from_bytes(bytes(raw) + bytes(16 - nb), 'big')
                addr = str(ipaddress.IPv6Address(pattern >> offset))
            comps.append((ctype, (addr, length, offset)))
            continue
        items = []
        while True:
            if p >= len(body):
                raise RefError('operator list without end-of-list')
            op = body[p]
            p += 1
            w = 1 << ((op >> 4) & 3)
            if p + w > len(body):
                raise RefError('operator value truncated')
            value = int.from_bytes(body[p : p + w], 'big')
            p += w
            and_ = bool(op & 0x40) and bool(items)  # the AND bit of the first operator is ignored
            if ctype in BITMASK:
                items.append((and_, bool(op & 0x02), bool(op & 0x01), value, w))
            else:
                items.append((and_, bool(op & 0x04), bool(op & 0x02), bool(op & 0x01), value, w))
            if op & 0x80:
                break
        comps.append((ctype, items))
    return {'rd': rd, 'comps': comps}, off + n


def dec_all(data: bytes, afi: int, vpn: bool) -> list[dict]:
    out = []
    p = 0
    while p < len(data):
        rule, n = dec_rule(data[p:], afi, vpn)
        out.append(rule)
        p += n
    return out


def canon(rule: dict, widths: bool = False) -> tuple:
    """hashable meaning of a rule (value widths are wire detail unless asked for)"""
    comps = []
    for ctype, payload in rule['comps']:
        if ctype in PREFIX:
            addr, length, offset = payload
            comps.append((ctype, (str(ipaddress.ip_address(addr)), length, offset)))
        else:
            comps.append((ctype, tuple(tuple(it) if widths else tuple(it[:-1]) for it in payload)))
    return (rule['rd'], tuple(comps))


# ---- traffic actions (RFC 8955 section 7, RFC 7674 for 4-byte AS redirect)


def ec_rate_bytes(asn: int, rate: float) -> bytes:
    return bytes([0x80, 0x06]) + struct.pack('!Hf', asn, rate)


def ec_rate_packets(asn: int, rate: float) -> bytes:
    return bytes([0x80, 0x0C]) + struct.pack('!Hf', asn, rate)


def ec_action(sample: bool, terminal: bool) -> bytes:
    return bytes([0x80, 0x07, 0, 0, 0, 0, 0, (2 if sample else 0) | (1 if terminal else 0)])


def ec_redirect_as2(asn: int, value: int) -> bytes:
    return bytes([0x80, 0x08]) + struct.pack('!HL', asn, value)


def ec_redirect_as4(asn: int, value: int) -> bytes:
    return bytes([0x82, 0x08]) + struct.pack('!LH', asn, value)


def ec_mark(dscp: int) -> bytes:
    return bytes([0x80, 0x09, 0, 0, 0, 0, 0, dscp & 0x3F])
